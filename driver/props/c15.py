"""C15 - profile factories return valid shapes with exactly the requested dimensions.

Tie: T (`driver/translate/c15_factories.py` re-reads `pyroll/core/profile/profile.py` on every run and regenerates
`lean/PyrollModel/Gen/C15.lean`: resolution chains, range tests, core-polygon vertices, buffer distance; the theorems of
`lean/PyrollProps/C15.lean` are re-checked against it) + K (the generated tables are run over Float by
`lean/Drivers/c15.lean` and compared, case by case, with what the real factory does: raise/accept decision, resolved
attributes, the coordinates actually handed to `LinearRing`, the `translate`/`clip_by_rect` arguments of `from_groove`, and
the ideal width/height/area against the real shapely result within the arc discretisation error).

Oracle (written from the property statement and the docstrings, not from the model): see `oracle_*` below.
"""
import inspect
import math
import traceback

from ..translate import c15_factories
from .. import stub

ID = "C15"
LEAN_MODULES = ["PyrollProps.C15"]
MODEL = "c15"
MODEL_MODULES = ["PyrollModel.FactoryDriver"]
RULE = ("every factory (round, box, diamond, square, hexagon, from_groove, from_polygon) x every admissible choice of the "
        "alternative size arguments x log-uniform sizes x corner radii {0, tiny, random, near the limit, exactly the limit} x "
        "optional extra keywords x contour refinement on/off; malformed stream: contradictory / incomplete alternatives, zero, "
        "negative, just beyond the limit, NaN, +-inf, None/str, width beyond the contour, closed gap with overfilling, non-simple / "
        "holed / empty / non-polygon input. non-trivial = not the plain default path (a corner radius > 0, a non-default "
        "alternative, extra keywords, or a malformed argument); distinct by factory + rounded argument tuple.")
ASSUMPTIONS = [
    "shapely/GEOS buffer with round joins is SPECIFIED as the Minkowski sum with a disc whose arcs are replaced by inscribed "
    "chords of at most 1.5 * (90deg / quad_segs) each (GEOS rounds the number of chords per arc); the ideal dimensions are "
    "theorems over the reals, the real result is measured against them with the tolerance that follows from that bound",
    "validity / simplicity predicates, clipping and NaN handling inside GEOS are parameters (checked on the real result only)",
    "non-finite arguments: the real-number theorems do not speak about NaN/inf; the Float run of the model and the oracle cover them",
    "the hexagon's corner radius range is taken from the code (<= side/2); its docstring said <= diagonal/2, which is not "
    "realisable for radii > sqrt(3)/2 * side",
]
TRUSTED_EXTRA = ["driver/translate/c15_factories.py (statement-level extractor for the factory bodies)"]

SHAPES = ("round", "box", "diamond", "square", "hexagon")
ALTS = {"round": ("radius", "diameter"), "square": ("side", "diagonal"), "hexagon": ("side", "height", "diagonal"),
        "box": (), "diamond": ()}
PARAMS = {"round": ("radius", "diameter"), "box": ("height", "width", "corner_radius"),
          "diamond": ("height", "width", "corner_radius"), "square": ("side", "diagonal", "corner_radius"),
          "hexagon": ("side", "height", "diagonal", "corner_radius")}
CLASSIFIERS = {"round": {"round"}, "box": {"box"}, "diamond": {"diamond"}, "square": {"square", "diamond"},
               "hexagon": {"hexagon"}}
NAN, INF = float("nan"), float("inf")
SQ2, SQ3 = math.sqrt(2), math.sqrt(3)

# past failures, run first on every invocation
CORPUS = [
    {"factory": "from_groove", "groove": {"cls": "SquareGroove", "kw": {"r1": 0, "r2": 3, "tip_depth": 20, "tip_angle": 91}},
     "args": {"width": NAN, "height": 50.0}},                                                    # NaN accepted, unclipped
    {"factory": "from_groove", "groove": {"cls": "SquareGroove", "kw": {"r1": 0, "r2": 3, "tip_depth": 20, "tip_angle": 91}},
     "args": {"filling": NAN, "gap": 3.0}},
    {"factory": "from_groove", "groove": {"cls": "SquareGroove", "kw": {"r1": 0, "r2": 3, "tip_depth": 20, "tip_angle": 91}},
     "args": {"filling": 1.005, "gap": 0.0}},                                                    # invalid polygon (fins)
    {"factory": "hexagon", "args": {"side": 1.0, "corner_radius": 0.2}},                       # F11: oversize
    {"factory": "hexagon", "args": {"diagonal": 2.0, "corner_radius": 0.3}},
    {"factory": "hexagon", "args": {"height": 1.7320508075688772, "corner_radius": 0.5}},
    {"factory": "square", "args": {"diagonal": 1.0, "corner_radius": 0.2}},
]


# ---------------------------------------------------------------------------------------------------------
# helpers
# ---------------------------------------------------------------------------------------------------------
def _finite(x):
    return isinstance(x, (int, float)) and not isinstance(x, bool) and math.isfinite(x)


def _num(x):
    return isinstance(x, (int, float)) and not isinstance(x, bool)


def _quad_segs():
    from shapely.geometry import Polygon
    return inspect.signature(Polygon.buffer).parameters["quad_segs"].default


def arc_step():
    """largest angle one chord of a buffered corner can subtend: GEOS divides an arc of angle t into round(t / q) equal
    chords, q = 90deg / quad_segs, so a chord subtends at most 1.5 q (and an arc below q/2 is a single chord < q/2)."""
    return 1.5 * (math.pi / 2) / _quad_segs()


def area_defect(r):
    """the inscribed polygon misses at most sum r^2 (psi_i - sin psi_i)/2 over its chords; the arcs of a convex buffered
    polygon add up to the full circle and (x - sin x)/x increases, hence <= pi r^2 (1 - sin(psi)/psi), psi = arc_step()."""
    psi = arc_step()
    return math.pi * r * r * (1 - math.sin(psi) / psi)


def tip_defect(r):
    """an extreme point lying on an arc may fall between two chord ends: short by at most r (1 - cos(psi/2)) per side"""
    return r * (1 - math.cos(arc_step() / 2))


def _contour_halfwidth(g):
    b = g.contour_line.bounds
    return max(b[2], -b[0])


def _touch(g):
    """smallest |z| at which the groove contour reaches the roll-gap plane y = 0"""
    zs = [abs(z) for z, y in g.contour_line.coords if y <= 0]
    return min(zs) if zs else INF


def make_groove(spec):
    import pyroll.core as pc
    return getattr(pc, spec["cls"])(**spec["kw"])


def call_factory(case):
    """-> ("ok", profile, rec) | ("raise", exception, origin, rec); origin = 'factory' (a raise/operation in profile.py itself),
    'lib' (inside shapely/numpy called from profile.py), 'call' (argument binding)"""
    from pyroll.core import Profile, Config
    import pyroll.core.profile.profile as pm
    rec = {}
    saved = {n: getattr(pm, n) for n in ("LinearRing", "translate", "clip_by_rect")}
    old_ref = Config.PROFILE_CONTOUR_REFINEMENT

    def ring(coords, *a, **k):
        import numpy as np
        rec["ring"] = np.array(coords, dtype=float).tolist()
        return saved["LinearRing"](coords, *a, **k)

    def tr(geom, *a, **k):
        rec["yoff"] = k.get("yoff")
        rec["xoff"] = k.get("xoff", 0.0)
        return saved["translate"](geom, *a, **k)

    def clip(geom, x0, y0, x1, y1):
        rec["clip"] = (x0, y0, x1, y1)
        rec["poly_bounds"] = tuple(geom.bounds)
        return saved["clip_by_rect"](geom, x0, y0, x1, y1)

    try:
        pm.LinearRing, pm.translate, pm.clip_by_rect = ring, tr, clip
        if case.get("refine") is not None:
            Config.PROFILE_CONTOUR_REFINEMENT = case["refine"]
        f = case["factory"]
        kw = dict(case.get("kwargs") or {})
        try:
            if f == "from_groove":
                g = case.get("_groove") or make_groove(case["groove"])
                p = Profile.from_groove(g, **case["args"], **kw)
            elif f == "from_polygon":
                p = Profile.from_polygon(case["_poly"], case.get("classifiers", {"custom"}), **kw)
            else:
                p = getattr(Profile, f)(**case["args"], **kw)
            return ("ok", p, rec)
        except Exception as ex:  # noqa: classified below
            tb = traceback.extract_tb(ex.__traceback__)
            last = tb[-1].filename if tb else ""
            if last.endswith("profile/profile.py"):
                origin = "factory"
            elif any(fr.filename.endswith("profile/profile.py") for fr in tb):
                origin = "lib"
            else:
                origin = "call"
            return ("raise", ex, origin, rec)
    finally:
        pm.LinearRing, pm.translate, pm.clip_by_rect = saved["LinearRing"], saved["translate"], saved["clip_by_rect"]
        Config.PROFILE_CONTOUR_REFINEMENT = old_ref


# ---------------------------------------------------------------------------------------------------------
# oracle: what the property statement + docstrings demand (independent of the Lean model)
# ---------------------------------------------------------------------------------------------------------
def documented(case):
    """-> ("TypeError" | "raise" | "ok", info). `info` for ok: the requested dimensions as documented."""
    f, a = case["factory"], case["args"]
    given = {k: v for k, v in a.items() if v is not None}
    if any(not _num(v) for v in given.values()):
        return "raise", "non-numeric argument"
    if f != "from_groove" and any(v is None and k not in ALTS[f] for k, v in a.items()):
        return "raise", "non-numeric argument"
    if f in ("box", "diamond"):
        if "height" not in given or "width" not in given:
            return "raise", "missing required argument"
        h, w, r = given["height"], given["width"], given.get("corner_radius", 0)
        if not all(_finite(v) for v in (h, w, r)):
            return "raise", "non-finite"
        if not (h > 0 and w > 0 and 0 <= r <= h / 2 and r <= w / 2):
            return "raise", "out of range"
        return "ok", {"h": h, "w": w, "r": r}
    if f in ("round", "square", "hexagon"):
        alts = [k for k in ALTS[f] if k in given]
        if len(alts) != 1:
            return "TypeError", "contradictory" if alts else "incomplete"
        r = given.get("corner_radius", 0) if f != "round" else 0
        v = given[alts[0]]
        if not (_finite(v) and _finite(r)):
            return "raise", "non-finite"
        if f == "round":
            rad = v if alts[0] == "radius" else v / 2
            if not rad > 0:
                return "raise", "out of range"
            return "ok", {"radius": rad, "diameter": 2 * rad, "alt": alts[0], "r": rad}
        if f == "square":
            s = v if alts[0] == "side" else v / SQ2
            if not (s > 0 and 0 <= r <= s / 2):
                return "raise", "out of range"
            return "ok", {"side": s, "diagonal": v if alts[0] == "diagonal" else SQ2 * s, "r": r, "alt": alts[0]}
        s = v if alts[0] == "side" else (v / 2 if alts[0] == "diagonal" else v / SQ3)
        if not (s > 0 and 0 <= r <= s / 2):
            return "raise", "out of range"
        return "ok", {"side": s, "height": v if alts[0] == "height" else SQ3 * s,
                      "diagonal": v if alts[0] == "diagonal" else 2 * s, "r": r, "alt": alts[0]}
    if f == "from_groove":
        g = case.get("_groove") or make_groove(case["groove"])
        wa = [k for k in ("width", "filling") if k in given]
        ha = [k for k in ("height", "gap") if k in given]
        if len(wa) != 1 or len(ha) != 1:
            return "TypeError", "contradictory or incomplete"
        if not all(_finite(v) for v in given.values()):
            return "raise", "non-finite"
        uw, d = float(g.usable_width), float(g.depth)
        width = given["width"] if "width" in given else given["filling"] * uw
        gap = given["gap"] if "gap" in given else given["height"] - 2 * d
        height = gap + 2 * d
        if not (width > 0 and width / uw > 0 and height > 0 and gap >= 0):
            return "raise", "out of range"
        zmax = _contour_halfwidth(g)
        if width / 2 > zmax * 1.01:
            return "raise", "wider than the contour lines"
        if gap == 0 and width / 2 > _touch(g):
            # closed gap and wider than where the two contour lines meet: the region between them has zero-thickness fins,
            # there is no valid cross-section of that width
            return "raise", "closed gap overfilled"
        # the implementation declares a one percent tolerance on "not wider than the contour lines" (source comment:
        # "one percent tolerance to bypass discretization issues"); inside that band the result has the contour's width
        return "ok", {"width": width, "gap": gap, "height": height, "filling": width / uw,
                      "measured_width": min(width, 2 * zmax)}
    raise AssertionError(f)


def shape_basics(ctx, case, p, key, scale, r=0.0):
    """valid, simple, hole-free, non-empty polygon centred on the origin"""
    cs = p.cross_section
    fails = []
    if cs.geom_type != "Polygon":
        fails.append(("not-a-polygon", f"cross_section is a {cs.geom_type}"))
        return fails
    if cs.is_empty:
        fails.append(("empty", "cross_section is empty"))
        return fails
    if not cs.is_valid:
        from shapely.validation import explain_validity
        fails.append(("invalid-shape", f"cross_section is not valid: {explain_validity(cs)}"))
    if not cs.is_simple:
        fails.append(("not-simple", "cross_section is not simple"))
    if len(cs.interiors) > 0:
        fails.append(("holes", "cross_section has holes"))
    b = cs.bounds
    if not all(math.isfinite(x) for x in b) or not math.isfinite(cs.area):
        fails.append(("non-finite-shape", f"bounds {b}"))
        return fails
    # centred: exact for straight sides; where the extreme points lie on discretised arcs each side may be short by the chord
    # sagitta independently, and the centroid of a set that misses at most `area_defect` of the ideal (centred) shape is
    # off by at most defect * radius-of-the-shape / area
    tol = 1e-9 * scale + tip_defect(r)
    if abs(b[0] + b[2]) > tol or abs(b[1] + b[3]) > tol:
        fails.append(("not-centred", f"bounds {b} are not symmetric about the origin"))
    if cs.is_valid and cs.area > 0:
        c = cs.centroid
        ctol = 1e-9 * scale + area_defect(r) * scale / cs.area
        if abs(c.x) > ctol or abs(c.y) > ctol:
            fails.append(("not-centred", f"centroid ({c.x}, {c.y}) off the origin"))
    return fails


def symmetry_fails(cs, r, images, slack):
    """the shape equals its images under the symmetry group of the shape. Two inscribed discretisations of the same ideal
    shape differ by at most twice the arc defect, hence that tolerance (plus float slack)."""
    from shapely.affinity import scale as sscale, rotate as srot
    fails = []
    tol = 2 * area_defect(r) + slack
    for name in images:
        if name == "mirror-z":
            img = sscale(cs, xfact=-1, yfact=1, origin=(0, 0))
        elif name == "mirror-y":
            img = sscale(cs, xfact=1, yfact=-1, origin=(0, 0))
        else:
            img = srot(cs, float(name[4:]), origin=(0, 0))
        if not (cs.is_valid and img.is_valid):
            continue
        d = cs.symmetric_difference(img).area
        if d > tol:
            fails.append(("asymmetric", f"differs from its image under {name} by area {d} (tolerance {tol})"))
    return fails


def rot_extent(cs, deg):
    """extent of the shape along the direction at `deg` degrees from the y axis (bounds height after turning it upright)"""
    from shapely.affinity import rotate as srot
    b = srot(cs, deg, origin=(0, 0)).bounds
    return b[3] - b[1]


def oracle_shape(case, p, info):
    """requested dimensions 'measured as documented', analytic area within the arc discretisation error"""
    f = case["factory"]
    cs = p.cross_section
    fails = []
    b = cs.bounds
    W, H, A = b[2] - b[0], b[3] - b[1], cs.area
    r = info["r"]
    eps = 1e-9

    def flat(name, got, want, flat_len=None):
        # measured between straight sides: exact up to rounding - unless the straight part has (almost) vanished
        # (radius at its limit), then the extreme points lie on the arcs like a tip
        if flat_len is not None and flat_len <= 1e-6 * want:
            return tip(name, got, want, r)
        if abs(got - want) > eps * max(abs(want), 1e-300):
            fails.append((name, f"{name}: measured {got!r}, requested {want!r}"))

    def tip(name, got, want, rr):         # measured between points on arcs: may be short by the chord sagitta on both sides
        if got > want * (1 + eps) or got < want - 2 * tip_defect(rr) - eps * want:
            fails.append((name, f"{name}: measured {got!r}, requested {want!r} (arc tolerance {2 * tip_defect(rr)!r})"))

    def area(want, rr):
        if A > want * (1 + eps) or A < want - area_defect(rr) - eps * want:
            fails.append(("area", f"area {A!r}, analytic {want!r} (arc tolerance {area_defect(rr)!r})"))

    # width/height hooks are the bounds
    if abs(p.width - W) > eps * W or abs(p.height - H) > eps * H:
        fails.append(("width-height-hook", f"profile.width/height {p.width}/{p.height} differ from the bounds {W}/{H}"))
    if f == "round":
        tip("width", W, info["diameter"], r)
        tip("height", H, info["diameter"], r)
        area(math.pi * r * r, r)
        if abs(p.radius - info["radius"]) > eps * r or abs(p.diameter - info["diameter"]) > eps * r:
            fails.append(("attributes", f"radius/diameter properties {p.radius}/{p.diameter}"))
        fails += symmetry_fails(cs, r, ("mirror-z", "mirror-y", "rot-90"), eps * A)
    elif f == "box":
        flat("width", W, info["w"], info["h"] - 2 * r)
        flat("height", H, info["h"], info["w"] - 2 * r)
        area(info["w"] * info["h"] - (4 - math.pi) * r * r, r)
        fails += symmetry_fails(cs, r, ("mirror-z", "mirror-y"), eps * A)
    elif f == "diamond":
        tip("width", W, info["w"], r)
        tip("height", H, info["h"], r)
        a, bb = info["w"] / 2 - r, info["h"] / 2 - r
        area(2 * a * bb + 4 * r * math.hypot(a, bb) + math.pi * r * r, r)      # Steiner; = w*h/2 for r = 0
        fails += symmetry_fails(cs, r, ("mirror-z", "mirror-y"), eps * A)
    elif f == "square":
        s, d = info["side"], info["diagonal"]
        # "the diagonal is measured at the tips, as if the corner radii were not present": the flat sides are those of the
        # un-rounded square, i.e. opposite sides are `side` apart; rounding a right-angled tip by r cuts it back by (sqrt2-1) r
        flat("side-to-side", rot_extent(cs, 45), s, s - 2 * r)
        flat("side-to-side", rot_extent(cs, -45), s, s - 2 * r)
        tip("width", W, d - 2 * (SQ2 - 1) * r, r)
        tip("height", H, d - 2 * (SQ2 - 1) * r, r)
        area(s * s - (4 - math.pi) * r * r, r)
        if abs(p.side - s) > eps * s or abs(p.diagonal - d) > eps * d or p.corner_radius != r:
            fails.append(("attributes", f"side/diagonal/corner_radius properties {p.side}/{p.diagonal}/{p.corner_radius}"))
        fails += symmetry_fails(cs, r, ("mirror-z", "mirror-y", "rot-90"), eps * A)
    elif f == "hexagon":
        s, h, d = info["side"], info["height"], info["diagonal"]
        # standing on a flat side: height = flat-to-flat; by the 6-fold symmetry the same holds 60 degrees apart
        flat("height", H, h)
        flat("flat-to-flat", rot_extent(cs, 60), h)
        flat("flat-to-flat", rot_extent(cs, -60), h)
        tip("width", W, d - 2 * (2 / SQ3 - 1) * r, r)
        area(1.5 * SQ3 * s * s - (2 * SQ3 - math.pi) * r * r, r)
        if abs(p.side - s) > eps * s or abs(p.diagonal - d) > eps * d or p.corner_radius != r:
            fails.append(("attributes", f"side/diagonal/corner_radius properties {p.side}/{p.diagonal}/{p.corner_radius}"))
        fails += symmetry_fails(cs, r, ("mirror-z", "mirror-y", "rot-60"), eps * A)
    if set(p.classifiers) != CLASSIFIERS[f]:
        fails.append(("classifiers", f"classifiers {sorted(p.classifiers)}"))
    return fails


def oracle_groove(case, p, info, g):
    import numpy as np
    cs = p.cross_section
    fails = []
    b = cs.bounds
    W, H, A = b[2] - b[0], b[3] - b[1], cs.area
    eps = 1e-9
    if abs(W - info["measured_width"]) > eps * info["width"]:
        fails.append(("width", f"width {W!r}, requested {info['width']!r} (filling {info['filling']!r})"))
    if abs(H - info["height"]) > eps * info["height"]:
        fails.append(("height", f"height {H!r}, requested gap + 2*depth = {info['height']!r}"))
    # analytic area of the region between the contour line lifted by gap/2 and its half turn, within |z| <= width/2
    # (the contour line is a polyline: the integral of its linear interpolation is exact)
    z, y = np.array(g.contour_line.coords).T
    if z[0] > z[-1]:
        z, y = z[::-1], y[::-1]
    hw = info["measured_width"] / 2
    zs = np.unique(np.concatenate([z[(z > -hw) & (z < hw)], [-hw, hw]]))
    ys = np.interp(zs, z, y)
    want = 2 * float(((ys[1:] + ys[:-1]) / 2 * (zs[1:] - zs[:-1])).sum()) + info["gap"] * info["measured_width"]
    if abs(A - want) > 1e-8 * want:
        fails.append(("area", f"area {A!r}, analytic {want!r}"))
    if abs(p.width - W) > eps * W or abs(p.height - H) > eps * H:
        fails.append(("width-height-hook", f"profile.width/height {p.width}/{p.height} differ from the bounds {W}/{H}"))
    fails += symmetry_fails(cs, 0.0, ("rot-180", "mirror-z", "mirror-y"), 1e-9 * A)
    if set(p.classifiers) != set(g.classifiers):
        fails.append(("classifiers", f"classifiers {sorted(p.classifiers)} != groove's {sorted(g.classifiers)}"))
    return fails


def oracle_kwargs(case, p):
    fails = []
    for k, v in (case.get("kwargs") or {}).items():
        if k not in p.__dict__ or p.__dict__[k] is not v:
            fails.append(("kwargs", f"keyword {k!r} is not attached unchanged (instance dict has {p.__dict__.get(k, '<missing>')!r})"))
        elif v is not None:          # an explicit None is "no value" for a hook attribute (life-cycle, property C02)
            got = getattr(p, k)
            if got is not v:
                fails.append(("kwargs", f"attribute {k!r} reads {got!r}, given {v!r}"))
    if "t" not in (case.get("kwargs") or {}) and p.__dict__.get("t") != 0:
        fails.append(("kwargs", "default t != 0"))
    return fails


# ---------------------------------------------------------------------------------------------------------
# model side
# ---------------------------------------------------------------------------------------------------------
def model_line(case):
    f, a = case["factory"], case["args"]
    if f == "from_groove":
        g = case.get("_groove") or make_groove(case["groove"])
        zm = _contour_halfwidth(g)
        names = ("width", "filling", "height", "gap")
        env = {"groove.usable_width": float(g.usable_width), "groove.depth": float(g.depth),
               "poly.bounds[0]": -zm, "poly.bounds[2]": zm}
    else:
        names, env = PARAMS[f], {}
    parts = [f]
    for n in names:
        v = a.get(n, 0 if n == "corner_radius" else None)
        parts.append(f"{n}=_" if v is None else f"{n}={stub.bits(v)}")
    parts += [f"{k}={stub.bits(v)}" for k, v in env.items()]
    return " ".join(parts)


def parse_model(out):
    if out in ("TypeError", "ValueError"):
        return {"kind": out}
    if not out.startswith("ok"):
        return {"kind": "bad", "raw": out}
    res = {"kind": "ok"}
    for tok in out.split()[1:]:
        k, _, v = tok.partition(":")
        if k == "attrs":
            res["attrs"] = {kv.split("=")[0]: stub.unbits(kv.split("=")[1]) for kv in v.split(",") if kv}
        elif k == "verts":
            res["verts"] = [tuple(stub.unbits(c) for c in pt.split(",")) for pt in v.split(";") if pt]
        elif k in ("warn", "late", "validity"):
            res[k] = v == "1"
        else:
            res[k] = stub.unbits(v)
    return res


def real_kind(res):
    """classification of what the implementation did, in the model's vocabulary"""
    if res[0] == "ok":
        return "ok"
    ex, origin = res[1], res[2]
    msg = str(ex)
    if origin == "factory" and isinstance(ex, TypeError) and "must be given" in msg:
        return "TypeError"
    if origin == "factory" and isinstance(ex, ValueError) and "out of range" in msg:
        return "ValueError"
    if origin == "factory" and isinstance(ex, ValueError) and "larger than its contour" in msg:
        return "late"
    if origin == "factory" and isinstance(ex, ValueError) and "degenerate" in msg:
        return "degenerate"
    return "other:" + origin + ":" + type(ex).__name__


def compare_model(ctx, case, res, m, clean):
    """correspondence model <-> implementation for one case"""
    f = case["factory"]
    rk = real_kind(res)
    numeric_finite = all(v is None or _finite(v) for v in case["args"].values())
    if m["kind"] == "bad":
        ctx.disagreement(f"model driver answered {m['raw']!r}", clean)
        return
    if m["kind"] in ("TypeError", "ValueError"):
        if rk != m["kind"]:
            ctx.disagreement(f"{f}: model decides {m['kind']}, implementation: {rk}", clean)
        else:
            ctx.validated()
        return
    # model accepts
    if f == "from_groove":
        if m["late"]:
            ok = rk == "late"
        elif numeric_finite:
            ok = rk in ("ok", "degenerate") if m.get("validity") else rk == "ok"
        else:
            ok = rk not in ("TypeError", "ValueError", "late")
        if not ok:
            ctx.disagreement(f"from_groove: model accepts (late={m['late']}), implementation: {rk}", clean)
            return
        rec = res[-1]
        if "yoff" in rec and numeric_finite:
            if not stub.close(float(rec["yoff"]), m["yoff"], 1e-12) or rec.get("xoff", 0.0) != 0.0:
                ctx.disagreement(f"from_groove: translate offset {rec['yoff']} vs model {m['yoff']}", clean)
                return
        if "clip" in rec and numeric_finite:
            c = rec["clip"]
            if not (stub.close(float(c[0]), m["lo"], 1e-12) and stub.close(float(c[2]), m["hi"], 1e-12)
                    and c[1] == -INF and c[3] == INF):
                ctx.disagreement(f"from_groove: clip rectangle {c} vs model [{m['lo']}, {m['hi']}]", clean)
                return
        if rk == "ok" and numeric_finite:
            b = res[1].cross_section.bounds
            # clipping cannot widen: inside the one percent band the result has the width of the contour lines
            want_w = min(m["width"], 2 * _contour_halfwidth(case.get("_groove") or make_groove(case["groove"])))
            if not (stub.close(b[2] - b[0], want_w, 1e-9) and stub.close(b[3] - b[1], m["height"], 1e-9)):
                ctx.disagreement(f"from_groove: bounds {b} vs model width {m['width']} height {m['height']}", clean)
                return
        ctx.validated()
        return
    if not numeric_finite:
        # NaN/inf pass the comparisons of both; what shapely then does is outside the model
        if rk in ("TypeError", "ValueError"):
            ctx.disagreement(f"{f}: model passes the range test (non-finite), implementation: {rk}", clean)
        else:
            ctx.validated()
        return
    if rk != "ok":
        ctx.disagreement(f"{f}: model accepts, implementation: {rk} ({res[1]})", clean)
        return
    p, rec = res[1], res[-1]
    scale = max(abs(m["w"]), abs(m["h"]), 1e-300)
    for k, v in m["attrs"].items():
        got = getattr(p, k, None)
        if got is None or not stub.close(float(got), v, 1e-12):
            ctx.disagreement(f"{f}: attribute {k} = {got!r}, model {v!r}", clean)
            return
    if f != "round":
        ring = rec.get("ring")
        if ring is None or len(ring) != len(m["verts"]) or any(
                abs(a[0] - b[0]) > 1e-12 * scale or abs(a[1] - b[1]) > 1e-12 * scale for a, b in zip(ring, m["verts"])):
            ctx.disagreement(f"{f}: coordinates handed to LinearRing {ring} differ from the generated vertices {m['verts']}", clean)
            return
    cs = p.cross_section
    b = cs.bounds
    r = m["r"]
    eps = 1e-9
    for name, got, want in (("width", b[2] - b[0], m["w"]), ("height", b[3] - b[1], m["h"])):
        if got > want * (1 + eps) or got < want - 2 * tip_defect(r) - eps * want:
            ctx.disagreement(f"{f}: {name} of the shapely result {got!r}, ideal (model) {want!r}", clean)
            return
    if cs.area > m["a"] * (1 + eps) or cs.area < m["a"] - area_defect(r) - eps * m["a"]:
        ctx.disagreement(f"{f}: area of the shapely result {cs.area!r}, ideal (model) {m['a']!r}", clean)
        return
    for name, deg in (("e45", 45.0), ("e30", 60.0), ("e150", -60.0)):
        got = rot_extent(cs, deg)
        if got > m[name] * (1 + eps) or got < m[name] - 2 * tip_defect(r) - eps * m[name]:
            ctx.disagreement(f"{f}: extent at {deg} deg of the shapely result {got!r}, ideal (model) {m[name]!r}", clean)
            return
    # buffer distance: every vertex of the result lies at distance r from the core polygon
    from shapely.geometry import LineString, Point
    vs = m["verts"]
    if r > 0:
        if max(abs(x - vs[0][0]) + abs(y - vs[0][1]) for x, y in vs) <= 1e-300:
            target = Point(vs[0])            # core degenerated to a point (radius at its limit, or the round profile)
        else:
            target = LineString(list(vs) + [vs[0]])   # the result's vertices lie outside the convex core: distance to its ring
        for x, y in list(cs.exterior.coords)[::3]:
            d = target.distance(Point(x, y))
            # chord ends lie at distance r; points that refine_cross_section inserts on a chord not closer than r cos(psi/2)
            if d > r + 1e-9 * scale or d < r * math.cos(arc_step() / 2) - 1e-9 * scale or \
                    (not case.get("refine") and abs(d - r) > 1e-9 * scale):
                ctx.disagreement(f"{f}: vertex ({x}, {y}) of the result is {d!r} away from the core polygon, buffer distance {r!r}", clean)
                return
    ctx.validated()


# ---------------------------------------------------------------------------------------------------------
# one case: implementation + oracle (+ model answer)
# ---------------------------------------------------------------------------------------------------------
def clean_case(case):
    c = {k: v for k, v in case.items() if not k.startswith("_")}
    if "kwargs" in c:
        c["kwargs"] = {k: repr(v) for k, v in c["kwargs"].items()}
    if "_points" in case:
        c["points"] = case["_points"]
    return c


def check_case(ctx, case, model_out=None, report=True):
    """returns the list of (key, text) violations found for this case"""
    f = case["factory"]
    clean = clean_case(case)
    res = call_factory(case)
    fails = []
    if f == "from_polygon":
        fails = oracle_polygon(case, res)
    else:
        kind, info = documented(case)
        ctx.count(f"expect:{f}:{kind if kind != 'raise' else 'raise/' + str(info)}")
        if kind in ("TypeError", "raise"):
            if res[0] == "ok":
                cs_ = res[1].cross_section
                fails.append(("accepted-" + str(info).replace(" ", "-"),
                              f"{info} arguments accepted instead of raising: returned a profile with bounds "
                              f"{cs_.bounds if not cs_.is_empty else 'EMPTY'}, is_valid={cs_.is_valid}"))
            else:
                ctx.count(f"raised:{type(res[1]).__name__}:{res[2]}")
        else:
            if res[0] != "ok":
                ex = res[1]
                fails.append(("rejected-valid-arguments", f"arguments in range rejected: {type(ex).__name__}: {ex}"))
            else:
                p = res[1]
                scale = max(abs(v) for v in info.values() if _num(v))
                basics = shape_basics(ctx, case, p, f, scale, info.get("r", 0.0) if f != "from_groove" else 0.0)
                fails += basics
                if not any(k in ("not-a-polygon", "empty", "non-finite-shape") for k, _ in basics):
                    if f == "from_groove":
                        fails += oracle_groove(case, p, info, case.get("_groove") or make_groove(case["groove"]))
                    else:
                        fails += oracle_shape(case, p, info)
                fails += oracle_kwargs(case, p)
    if report:
        seen = set()
        for k, text in fails:
            if k in seen:
                continue
            seen.add(k)
            ctx.violation(f"{f}:{k}", f"Profile.{f}({_fmt_args(clean)}): {text}", clean)
    if model_out is not None and f != "from_polygon":
        compare_model(ctx, case, res, parse_model(model_out), clean)
    elif model_out is not None:
        rk = "ok" if res[0] == "ok" else ("ValueError" if isinstance(res[1], ValueError) and res[2] == "factory" else "other")
        if case.get("_facts") is not None:
            if model_out != rk:
                ctx.disagreement(f"from_polygon: model {model_out}, implementation {rk}", clean)
            else:
                ctx.validated()
    return fails


def _fmt_args(clean):
    a = ", ".join(f"{k}={v!r}" for k, v in clean.get("args", {}).items())
    if clean.get("groove"):
        a = f"{clean['groove']['cls']}(**{clean['groove']['kw']}), " + a
    if clean.get("kwargs"):
        a += ", " + ", ".join(f"{k}={v}" for k, v in clean["kwargs"].items())
    return a


# ---------------------------------------------------------------------------------------------------------
# from_polygon
# ---------------------------------------------------------------------------------------------------------
def oracle_polygon(case, res):
    poly = case["_poly"]
    fails = []
    good = False
    try:
        good = (poly.geom_type == "Polygon" and not poly.is_empty and poly.is_valid and poly.is_simple
                and len(poly.interiors) == 0)
    except Exception:
        good = False
    if not good:
        if res[0] == "ok":
            fails.append(("accepted-bad-polygon", f"a {case['kind']} cross-section was accepted"))
        return fails
    if res[0] != "ok":
        fails.append(("rejected-valid-polygon", f"a valid simple polygon was rejected: {res[1]}"))
        return fails
    p = res[1]
    cs = p.cross_section
    if cs is not poly and not cs.equals_exact(poly, 0):
        fails.append(("polygon-changed", "the cross-section is not the polygon handed in"))
    b, pb = cs.bounds, poly.bounds
    if abs(p.width - (pb[2] - pb[0])) > 1e-9 * (pb[2] - pb[0]) or abs(p.height - (pb[3] - pb[1])) > 1e-9 * (pb[3] - pb[1]):
        fails.append(("width-height-hook", f"width/height {p.width}/{p.height} differ from the polygon's extent"))
    if set(p.classifiers) != set(case.get("classifiers", {"custom"})):
        fails.append(("classifiers", f"classifiers {sorted(p.classifiers)}"))
    fails += oracle_kwargs(case, p)
    return fails


def gen_polygon(rng):
    from shapely.geometry import Polygon, MultiPolygon, LineString, Point
    kind = rng.choice(["convex", "star", "star", "offcentre", "bowtie", "hole", "empty", "spike", "multi", "line", "point",
                       "duplicate"])
    sc = math.exp(rng.uniform(-5, 2))
    n = rng.randrange(3, 12)
    pts = []
    for k in range(n):
        ang = 2 * math.pi * k / n + rng.uniform(-0.3, 0.3) / n
        rad = sc * (rng.uniform(0.4, 0.6) if (kind == "star" and k % 2) else rng.uniform(0.8, 1.0))
        pts.append((rad * math.cos(ang), rad * math.sin(ang)))
    holes = None
    if kind == "offcentre":
        dx, dy = rng.uniform(-3, 3) * sc, rng.uniform(-3, 3) * sc
        pts = [(x + dx, y + dy) for x, y in pts]
    if kind == "bowtie":
        pts = [(-sc, -sc), (sc, sc), (sc, -sc), (-sc, sc)]
    if kind == "spike":
        pts = [(-sc, -sc), (sc, -sc), (sc, sc), (0, sc), (0, 2 * sc), (0, sc), (-sc, sc)]
    if kind == "duplicate":
        pts = pts[:2] + [pts[1]] + pts[2:]
    if kind == "hole":
        holes = [[(0.1 * sc * math.cos(t), 0.1 * sc * math.sin(t)) for t in (0, 2, 4)]]
    if kind == "empty":
        poly = Polygon()
    elif kind == "multi":
        poly = MultiPolygon([Polygon(pts), Polygon([(x + 5 * sc, y) for x, y in pts])])
    elif kind == "line":
        poly = LineString(pts)
    elif kind == "point":
        poly = Point(0, 0)
    else:
        poly = Polygon(pts, holes)
    return kind, poly, {"points": pts, "holes": holes, "kind": kind}


def polygon_case(rng, kwargs):
    kind, poly, desc = gen_polygon(rng)
    case = {"factory": "from_polygon", "kind": kind, "args": {}, "classifiers": sorted(rng.sample(
        ["custom", "round", "star", "x"], rng.randrange(0, 3))), "kwargs": kwargs, "_poly": poly, "_points": desc}
    try:
        if poly.geom_type == "Polygon":
            case["_facts"] = {"is_simple": bool(poly.is_simple), "is_valid": bool(poly.is_valid),
                              "is_empty": bool(poly.is_empty), "has_interiors": len(poly.interiors) > 0}
    except Exception:
        pass
    return case


def polygon_from_desc(desc):
    from shapely.geometry import Polygon, MultiPolygon, LineString, Point
    kind, pts = desc["kind"], [tuple(p) for p in desc["points"]]
    if kind == "empty":
        return Polygon()
    if kind == "multi":
        sc = max(abs(c) for p in pts for c in p)
        return MultiPolygon([Polygon(pts), Polygon([(x + 5 * sc, y) for x, y in pts])])
    if kind == "line":
        return LineString(pts)
    if kind == "point":
        return Point(0, 0)
    return Polygon(pts, desc.get("holes"))


# ---------------------------------------------------------------------------------------------------------
# generators
# ---------------------------------------------------------------------------------------------------------
class _Marker:
    def __repr__(self):
        return "<object>"


def gen_kwargs(rng):
    if rng.random() < 0.55:
        return {}
    pool = {"temperature": lambda: 273.15 + rng.uniform(0, 1300), "strain": lambda: 0, "length": lambda: rng.uniform(0.1, 9),
            "material": lambda: ["C45", "steel"], "flow_stress": lambda: 1e8, "t": lambda: rng.uniform(0, 5),
            "density": lambda: 7.5e3, "custom_note": lambda: _Marker(), "x": lambda: 0.0, "label_text": lambda: "abc",
            "chemical_composition": lambda: {"Fe": 0.98, "C": 0.02}, "velocity": lambda: None}
    ks = rng.sample(sorted(pool), rng.randrange(1, 5))
    return {k: pool[k]() for k in ks}


def gen_size(rng):
    u = rng.random()
    if u < 0.04:
        return rng.choice([1e-6, 1e-5, 1e4, 1e5]) * rng.uniform(1, 3)
    if u < 0.14:
        return float(rng.choice([1, 2, 10, 30, 0.5, 0.02]))
    return math.exp(rng.uniform(-7, 3))


def gen_radius(rng, limit):
    """corner radius in [0, limit] with the boundary values"""
    u = rng.random()
    if u < 0.15:
        return 0.0
    if u < 0.22:
        return limit                      # exactly the documented maximum
    if u < 0.30:
        return limit * (1 - 10 ** rng.uniform(-15, -3))
    if u < 0.38:
        return limit * 10 ** rng.uniform(-12, -3)
    return limit * rng.uniform(0, 1)


def gen_shape_case(rng, f=None, alt=None):
    f = f or rng.choice(SHAPES)
    s = gen_size(rng)
    args = {}
    if f == "round":
        alt = alt or rng.choice(ALTS[f])
        args[alt] = s
    elif f in ("box", "diamond"):
        args["height"] = s
        args["width"] = s * (1.0 if rng.random() < 0.1 else math.exp(rng.uniform(-1.6, 1.6)))
        lim = min(args["height"] / 2, args["width"] / 2)
        if rng.random() < 0.85:
            args["corner_radius"] = gen_radius(rng, lim)
    elif f == "square":
        alt = alt or rng.choice(ALTS[f])
        args[alt] = s
        side = s if alt == "side" else s / SQ2
        if rng.random() < 0.85:
            args["corner_radius"] = gen_radius(rng, side / 2)
    else:
        alt = alt or rng.choice(ALTS[f])
        args[alt] = s
        side = s if alt == "side" else (s / 2 if alt == "diagonal" else s / SQ3)
        if rng.random() < 0.85:
            args["corner_radius"] = gen_radius(rng, side / 2)
    return {"factory": f, "args": args}


def gen_malformed_shape(rng):
    base = gen_shape_case(rng)
    f, a = base["factory"], dict(base["args"])
    mode = rng.choice(["both", "none", "zero", "negative", "beyond", "nan", "inf", "ninf", "type", "neg-radius", "all-three"])
    names = [n for n in PARAMS[f] if n in a]
    tgt = rng.choice(names)
    if mode in ("both", "all-three") and ALTS[f]:
        for n in (ALTS[f] if mode == "all-three" else rng.sample(ALTS[f], 2)):
            a.setdefault(n, gen_size(rng))
    elif mode == "none" and ALTS[f]:
        for n in ALTS[f]:
            a.pop(n, None)
        if rng.random() < 0.5:
            for n in ALTS[f]:
                a[n] = None
    elif mode == "zero":
        a[tgt] = rng.choice([0.0, 0, -0.0]) if tgt != "corner_radius" else -0.0
        if tgt == "corner_radius":
            mode = "valid-negzero"
    elif mode == "negative":
        a[tgt] = -abs(a[tgt]) if a[tgt] else -1.0
    elif mode == "neg-radius" and f != "round":
        a["corner_radius"] = -10 ** rng.uniform(-12, 0) * max(v for v in a.values() if _num(v))
    elif mode == "beyond" and f != "round":
        ok, info = documented({"factory": f, "args": {k: v for k, v in a.items() if k != "corner_radius"}})
        if ok == "ok":
            lim = min(info["h"], info["w"]) / 2 if f in ("box", "diamond") else info["side"] / 2
            a["corner_radius"] = rng.choice([math.nextafter(lim, INF), lim * (1 + 10 ** rng.uniform(-14, 0)), lim * 2])
    elif mode == "nan":
        a[tgt] = NAN
    elif mode == "inf":
        a[tgt] = INF
    elif mode == "ninf":
        a[tgt] = -INF
    elif mode == "type":
        a[tgt] = rng.choice([None, "12", [1.0]]) if (f in ("box", "diamond") or tgt == "corner_radius") else "12"
    return {"factory": f, "args": a, "malformed": mode}


GROOVES = [
    ("CircularOvalGroove", lambda s, u: dict(depth=8e-3 * s * u(0.8, 1.1), r1=6e-3 * s, r2=40e-3 * s * u(0.9, 1.2))),
    ("RoundGroove", lambda s, u: dict(r1=1e-3 * s, r2=12.5e-3 * s * u(0.95, 1.1), depth=11.5e-3 * s)),
    ("BoxGroove", lambda s, u: dict(r1=2e-3 * s, r2=4e-3 * s, depth=10e-3 * s * u(0.8, 1.1), usable_width=30e-3 * s,
                                    ground_width=24e-3 * s)),
    ("DiamondGroove", lambda s, u: dict(r1=3e-3 * s, r2=5e-3 * s, usable_width=38e-3 * s * u(0.9, 1.1), tip_depth=12e-3 * s)),
    ("SquareGroove", lambda s, u: dict(r1=3e-3 * s, r2=4e-3 * s, usable_width=30e-3 * s * u(0.97, 1.03), tip_depth=15e-3 * s)),
    ("SquareGroove", lambda s, u: dict(r1=0, r2=3e-3 * s, tip_depth=20e-3 * s, tip_angle=91)),
    ("SwedishOvalGroove", lambda s, u: dict(r1=3e-3 * s, r2=6e-3 * s, depth=7e-3 * s, usable_width=36e-3 * s,
                                            ground_width=20e-3 * s)),
    ("FalseRoundGroove", lambda s, u: dict(r1=1e-3 * s, r2=12.5e-3 * s, depth=11.5e-3 * s, flank_angle=u(55, 70))),
    ("FlatGroove", lambda s, u: dict(usable_width=30e-3 * s)),
]


def gen_groove(rng):
    cls, mk = rng.choice(GROOVES)
    s = rng.choice([1.0, 1e3, math.exp(rng.uniform(-1, 3))])
    return {"cls": cls, "kw": mk(s, rng.uniform)}


def gen_groove_case(rng, malformed=False):
    spec = gen_groove(rng)
    g = make_groove(spec)
    uw, d = float(g.usable_width), float(g.depth)
    zmax = g.contour_line.bounds[2]
    walt, halt = rng.choice(["width", "filling"]), rng.choice(["height", "gap"])
    u = rng.random()
    if u < 0.1:
        fill = 1.0
    elif u < 0.3:
        fill = rng.uniform(1.0, 2 * zmax / uw * (1.009 if rng.random() < 0.15 else 1.0))   # overfilled (rarely: 1 % band)
    else:
        fill = rng.uniform(0.05, 1.0)
    v = rng.random()
    gap = 0.0 if v < 0.2 else (d if d > 0 else uw) * 10 ** rng.uniform(-6, 0.3)
    if d == 0 and gap == 0.0 and not malformed:
        gap = uw * 0.1
    args = {walt: fill if walt == "filling" else fill * uw, halt: gap if halt == "gap" else gap + 2 * d}
    case = {"factory": "from_groove", "groove": spec, "args": args, "_groove": g}
    if malformed:
        mode = rng.choice(["both-w", "both-h", "none-w", "none-h", "zero", "negative", "nan", "inf", "ninf", "too-wide",
                           "too-low", "type", "all"])
        tgt = rng.choice([walt, halt])
        if mode == "both-w":
            args["width" if walt == "filling" else "filling"] = args[walt] * (uw if walt == "filling" else 1 / uw)
        elif mode == "both-h":
            args["height" if halt == "gap" else "gap"] = gap + 2 * d if halt == "gap" else gap
        elif mode == "none-w":
            args.pop(walt)
        elif mode == "none-h":
            args.pop(halt)
        elif mode == "all":
            args.update(width=fill * uw, filling=fill, height=gap + 2 * d, gap=gap)
        elif mode == "zero":
            tgt = rng.choice([walt, "height"])
            args.pop(halt if tgt == "height" else "___", None)
            args[tgt] = 0.0
        elif mode == "negative":
            args[tgt] = -abs(args[tgt]) if args[tgt] else -1e-9 * uw
        elif mode == "nan":
            args[tgt] = NAN
        elif mode == "inf":
            args[tgt] = INF
        elif mode == "ninf":
            args[tgt] = -INF
        elif mode == "too-wide":
            args[walt] = (2 * zmax * 1.01 * rng.uniform(1.0001, 1.5)) / (uw if walt == "filling" else 1)
        elif mode == "too-low":
            args.pop(halt)
            args["height"] = 2 * d * rng.uniform(0.1, 0.999999) if d > 0 else -1.0
        elif mode == "type":
            args[tgt] = rng.choice(["1", [1.0]])
        case["malformed"] = mode
    return case


# ---------------------------------------------------------------------------------------------------------
# shrinking (cheap): normalise the scale, then round the corner radius
# ---------------------------------------------------------------------------------------------------------
def shrink(ctx, case, keys):
    class _Null:
        def __getattr__(self, n):
            return lambda *a, **k: None
    if case["factory"] not in SHAPES:
        return case
    best = case

    def still(c):
        try:
            return keys & {k for k, _ in check_case(_Null(), c, report=False)}
        except Exception:
            return False
    nums = [v for v in case["args"].values() if _finite(v) and v > 0]
    cands = []
    if nums:
        m = max(nums)
        cands.append({**case, "args": {k: (v / m if _finite(v) else v) for k, v in case["args"].items()}, "kwargs": {}, "refine": None})
    for c in cands:
        if still(c):
            best = c
    r = best["args"].get("corner_radius")
    if _finite(r) and r > 0:
        for digits in (1, 2, 3):
            c = {**best, "args": {**best["args"], "corner_radius": float(f"{r:.{digits}g}")}}
            if still(c):
                best = c
                break
    if best.get("kwargs"):
        c = {**best, "kwargs": {}}
        if still(c):
            best = c
    return best


# ---------------------------------------------------------------------------------------------------------
# translate / run / replay
# ---------------------------------------------------------------------------------------------------------
def translate(ctx):
    ctx.c15 = c15_factories.emit(ctx)


def _canon(case):
    def r(v):
        if isinstance(v, float):
            return repr(float(f"{v:.9g}")) if math.isfinite(v) else repr(v)
        return repr(v)
    return [case["factory"], sorted((k, r(v)) for k, v in case["args"].items()),
            sorted((case.get("groove") or {}).get("kw", {}).items(), key=str), sorted((case.get("kwargs") or {})),
            case.get("refine"), case.get("kind"), str(case.get("_points"))[:200]]


def _nontrivial(case):
    a = case["args"]
    if case.get("malformed") or case.get("kwargs") or case.get("refine"):
        return True
    if case["factory"] in ("from_groove", "from_polygon"):
        return True
    r = a.get("corner_radius")
    if _num(r) and r != 0:
        return True
    return any(k in a for k in ("diameter", "diagonal", "height")) and case["factory"] in ("round", "square", "hexagon")


def run(ctx):
    import logging
    logging.getLogger("pyroll").setLevel(logging.ERROR)
    rng = ctx.rng
    cases = [dict(c) for c in CORPUS]
    # every factory x every alternative at least a few times, then the random streams
    for f in SHAPES:
        for alt in (ALTS[f] or (None,)):
            for _ in range(3):
                cases.append(gen_shape_case(rng, f, alt))
    for _ in range(ctx.budget(900, 20000)):
        cases.append(gen_shape_case(rng))
    for _ in range(ctx.budget(450, 8000)):
        cases.append(gen_malformed_shape(rng))
    for _ in range(ctx.budget(160, 3000)):
        cases.append(gen_groove_case(rng))
    for _ in range(ctx.budget(120, 2000)):
        cases.append(gen_groove_case(rng, malformed=True))
    for c in cases:
        if c["factory"] != "from_polygon" and "kwargs" not in c:
            c["kwargs"] = gen_kwargs(rng)
        if c["factory"] in SHAPES and "refine" not in c and rng.random() < 0.15:
            c["refine"] = rng.choice([1, 50, 200])
    for _ in range(ctx.budget(150, 2000)):
        cases.append(polygon_case(rng, gen_kwargs(rng)))

    # model answers (one batch)
    outs = [None] * len(cases)
    if getattr(ctx, "model_available", True):
        lines, idx = [], []
        for i, c in enumerate(cases):
            if c["factory"] == "from_polygon":
                if c.get("_facts") is not None:
                    lines.append("polygon " + " ".join(f"{k}={stub.bits(1.0 if v else 0.0)}" for k, v in c["_facts"].items()))
                    idx.append(i)
                continue
            if c["factory"] == "from_groove" and "_groove" not in c:
                c["_groove"] = make_groove(c["groove"])
            alts = ("width", "filling", "height", "gap") if c["factory"] == "from_groove" else ALTS[c["factory"]]
            if all(_num(v) or (v is None and k in alts) for k, v in c["args"].items()) and \
                    (c["factory"] not in ("box", "diamond") or all(k in c["args"] for k in ("height", "width"))):
                lines.append(model_line(c))
                idx.append(i)
        res = ctx.lean_model(MODEL, lines)
        if len(res) != len(lines):
            from ..core import InfraError
            raise InfraError(f"model driver returned {len(res)} lines for {len(lines)} cases")
        for i, o in zip(idx, res):
            outs[i] = o.strip()

    n_viol = 0
    for c, o in zip(cases, outs):
        ctx.case(_canon(c), nontrivial=_nontrivial(c))
        ctx.count("factory:" + c["factory"])
        if c.get("malformed"):
            ctx.count("malformed:" + c["malformed"])
        for k in c["args"]:
            if k in ("radius", "diameter", "side", "diagonal", "height", "width", "filling", "gap") and c["factory"] not in ("box", "diamond"):
                ctx.count(f"alt:{c['factory']}:{k}")
        before = len(ctx.violations)
        fails = check_case(ctx, c, o, report=False)
        if fails:
            keys = {k for k, _ in fails}
            small = shrink(ctx, c, keys) if n_viol < 8 else c
            n_viol += 1
            if small is not c:
                fails = check_case(ctx, small, None, report=False) or fails
                c = small
            clean = clean_case(c)
            seen = set()
            for k, text in fails:
                if k not in seen:
                    seen.add(k)
                    ctx.violation(f"{c['factory']}:{k}", f"Profile.{c['factory']}({_fmt_args(clean)}): {text}", clean)
        if len(ctx.samples) < 4 and _nontrivial(c) and len(ctx.violations) == before:
            ctx.sample({"case": clean_case(c), "model": (o or "")[:160]})
    ctx.notes["arc_step_deg"] = math.degrees(arc_step())
    ctx.notes["quad_segs"] = _quad_segs()


def replay(ctx, data):
    import logging
    logging.getLogger("pyroll").setLevel(logging.ERROR)
    r = dict(data.get("replay", data))
    r.pop("kwargs", None)                      # keyword values are stored as text; they do not influence the geometry
    if r.get("factory") == "from_polygon":
        r["_poly"] = polygon_from_desc(r["points"])
        r["_points"] = r["points"]
    check_case(ctx, r, None, report=True)
