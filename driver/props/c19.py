"""C19 - velocity calculations leave a constant volume flux through all roll passes.

Tie: T (driver/translate/c19_velo.py re-reads the two loops `PassSequence.solve_velocities_backward/forward` and the
continuity hook implementations on every run -> lean/PyrollModel/Gen/C19.lean: recurrence / seed / tolerance as `Expr`,
the control skeleton as `Velo.Shape`; the theorems of lean/PyrollProps/C19.lean are re-checked against them)
  +  K (real sequences of 1-5 roll passes are run with a recording `solve`; the Lean model VeloGen.backwardSeq/forwardSeq is
fed the unit list of the line as the harness arranged it and the out cross-section areas every real `solve` call left behind
and must reproduce the velocities written before
every solve call, the number of iterations and the termination decision; every generated hook formula is evaluated
over Float and compared with the python function it came from).
The oracle is written from the property text and only reads the real objects after the call.
"""
import json
import math

from ..translate import c19_velo
from .. import stub

ID = "C19"
LEAN_MODULES = ["PyrollProps.C19"]
MODEL = "c19"
MODEL_MODULES = ["PyrollModel.VeloDriver"]
RULE = ("real PassSequences: oval/round/box/diamond-square chains of 2-5 two-roll passes (a few with 1 or 0 passes for the "
        "model's edge cases) with transports in between, random groove sizes / gaps / roll radii / incoming diameters, "
        "forward and backward, speeds 0.3-60, spread model none | fixed filling | draught power law | the same with a "
        "velocity-dependent factor, registered on a throw-away RollPass/OutProfile subclass or on the core class and "
        "removed in finally; default and tiny iteration budgets. About a quarter each: user values for the float hooks of pass "
        "and roll that have no implementation in the tree (names tested by anchored implementations first); neutral plane given as "
        "angle or as point; a history of the sequence object (earlier calculation same/other direction, velocities given at "
        "construction or assigned, plain solve, attributes read before, calculation on another sequence, same in-profile object); "
        "re-simulation of the mill at the resulting roll speeds. About a fifth each: three-roll passes (15 %); the speed written as "
        "int / numpy scalar; an incoming profile carrying a velocity (+ t, x, length, strain) or handed over by an upstream unit; rolls "
        "with a rotational frequency; a line re-arranged after use (stands added behind / in front, exchanged, removed through "
        "append/prepend/drop or the live subunits list, after a calculation, a solve or reads of the sequence's lists). All oracle "
        "clauses read the roll passes the harness itself put into the line. non-trivial = at least one out area differs from the "
        "usable area by > 1e-6 relative; distinct by the rounded case description.")
ASSUMPTIONS = [
    "what Unit.solve does to the cross-sections is a parameter of the model (S: call number, velocities -> out areas); the "
    "correspondence feeds the recorded areas of the real run",
    "IEEE rounding: theorems over the reals; per-iteration velocities of model (Float) and code are compared with rtol 1e-12",
    "in_profile.velocity is evaluated one solve-iteration before the final out cross-section: in/out flux agree only within "
    "the pass's iteration precision (checked numerically with 0.01 + 3*iteration_precision*|v|, theorem is about the formula)",
    "interpretation (oracle clause 5): the pass velocities are the ones the rolls drive the passes at, so the same mill set to the "
    "resulting rotational frequencies (no pass velocity given, one plain solve) must run every pass at its calculated velocity "
    "(rtol 1e-9: velocity -> frequency -> velocity), with equal flux within 0.01 + 3*iteration_precision*|v| and, backward, the last "
    "pass at the final speed (rtol 1e-9)",
    "the model has no input for the state of the sequence object before the call: independence of that state is checked by the "
    "correspondence on non-fresh sequences (the model fed only the arguments must reproduce every velocity vector)",
    "the model's input is the unit list of the sequence at the time of the call as the harness arranged it (own list of the unit "
    "objects, checked against iteration over the sequence, never PassSequence.roll_passes)",
    "entry_exit_velocity_written_for_every_roll_pass reads class names in pyroll/core/__init__.py; the imported root_hooks list is "
    "asked for every subclass of BaseRollPass in the package (correspondence)",
    "a generated case slower than 12 s (quick) / 30 s (thorough) is abandoned and counted: a pass without reduction has NaN results "
    "on which Unit.solve iterates up to its full count in every unit (minutes per calculation); nothing is claimed about it",
]
TRUSTED_EXTRA = ["AST pattern matcher for the two velocity loops (driver/translate/c19_velo.py); its output is pinned by the "
                 "shape obligations `backward_shape_as_modelled` / `forward_shape_as_modelled` and exercised by the per-iteration correspondence"]

LOOP_TOL = 0.01      # the property's "loop tolerance": the literal of the stop test, in velocity units


# ---------------------------------------------------------------------------------------------------------
# case descriptions (JSON-able, seed independent) and how to build them
# ---------------------------------------------------------------------------------------------------------

def _groove(spec):
    from pyroll.core import CircularOvalGroove, RoundGroove, BoxGroove, DiamondGroove, SquareGroove
    cls = {"oval": CircularOvalGroove, "round": RoundGroove, "box": BoxGroove, "diamond": DiamondGroove,
           "square": SquareGroove}[spec["kind"]]
    return cls(**spec["args"])


def _spread_fn(sp):
    """spread model: a hook implementation for OutProfile.width"""
    kind = sp["kind"]
    e = sp.get("e", -0.5)
    fill = sp.get("fill", 0.93)
    c = sp.get("c", 0.0)
    vref = sp.get("vref", 1.0)

    def vfactor(self):
        # bounded velocity dependence: |d ln w / d ln v| <= c, so the velocity iteration is a contraction (q <= c)
        return 1.0 + c * math.tanh(math.log(self.roll_pass.velocity / vref)) if c else 1.0

    if kind in ("draught", "vdraught"):
        def width(self, cycle):
            if cycle:
                return None
            return self.roll_pass.in_profile.width * self.roll_pass.draught ** e * vfactor(self)
    elif kind in ("fill", "vfill"):
        def width(self, cycle):
            if cycle:
                return None
            return self.roll_pass.usable_width * fill * vfactor(self)
    else:
        raise ValueError(kind)
    return width


class Built:
    pass


def _roll_kwargs(desc, k, roll_speeds):
    """`k` = index of the pass in the line under test; None for a stand that is only part of the line's history"""
    kw = {}
    neutral = desc.get("neutral")
    if neutral and k is not None:
        kw["neutral_angle" if neutral["kind"] == "angle" else "neutral_point"] = neutral["values"][k]
    ex = desc.get("roll_extras")
    if ex and k is not None:
        kw.update(ex[k])
    rf = desc.get("roll_frequency")
    if rf:                                   # rolls defined with a rotational frequency (as in the library's examples)
        kw["rotational_frequency"] = rf[k] if k is not None else rf[-1]
    if roll_speeds is not None:
        kw["rotational_frequency"] = roll_speeds[k]
    return kw


def _pass_kwargs(desc, k, roll_speeds):
    kw = {}
    ex = desc.get("pass_extras")
    if ex and k is not None:
        kw.update(ex[k])
    cv = desc.get("construct_velocities")
    if cv and roll_speeds is None and k is not None:   # the mill (roll_speeds given) is driven by its rolls only
        kw["velocity"] = cv[k]
    return kw


def _num(x, kind):
    """the prescribed speed as the caller writes it: `10.0`, `10`, a numpy scalar (desc keeps the value as a float)"""
    if not kind or kind == "float":
        return float(x)
    import numpy as np
    if kind == "int":
        return int(x)
    return {"np.int64": np.int64, "np.int32": np.int32, "np.float64": np.float64}[kind](x)


SPEED_TYPES = ["int", "int", "np.int64", "np.int32", "np.float64"]
SEQ_READS = ["roll_passes", "units", "transports", "subunits", "len", "iter", "getitem-last", "by-label"]
ARRANGE_VIA = {
    # a finishing stand (with its transport) joins the line later
    "tail": ["append", "subunits.append", "subunits.extend", "subunits+=", "subunits.insert-end", "slice-assign-end"],
    # a roughing stand is put in front later
    "head": ["prepend", "subunits.insert-front", "slice-assign-front"],
    # a stand is exchanged for another one
    "exchange": ["setitem", "del+insert", "drop+insert", "pop+insert", "remove+insert", "slice-assign"],
    # the last stand(s) are taken out of the line
    "remove": ["drop", "del", "pop", "remove", "del-slice", "slice-assign-empty"],
}


def _rearrange(seq, arr, initial, final, new_units):
    """bring the sequence from `initial` to `final` (lists of unit objects) through the requested part of the public API:
    PassSequence.append/prepend/drop or the live, parent-maintaining list `seq.subunits`"""
    kind, via = arr["kind"], arr["via"]
    sub = seq.subunits
    if kind == "tail":
        if via == "append":
            for u in new_units:
                seq.append(u)
        elif via == "subunits.append":
            for u in new_units:
                sub.append(u)
        elif via == "subunits.extend":
            sub.extend(new_units)
        elif via == "subunits+=":
            sub += new_units
        elif via == "subunits.insert-end":
            for u in new_units:
                sub.insert(len(sub), u)
        elif via == "slice-assign-end":
            sub[len(sub):] = new_units
        else:
            raise ValueError(via)
    elif kind == "head":
        if via == "prepend":
            for u in reversed(new_units):
                seq.prepend(u)
        elif via == "subunits.insert-front":
            for u in reversed(new_units):
                sub.insert(0, u)
        elif via == "slice-assign-front":
            sub[0:0] = new_units
        else:
            raise ValueError(via)
    elif kind == "exchange":
        i = arr["unit_index"]
        old, new = initial[i], final[i]
        if via == "setitem":
            sub[i] = new
        elif via == "slice-assign":
            sub[i:i + 1] = [new]
        else:
            if via == "del+insert":
                del sub[i]
            elif via == "drop+insert":
                seq.drop(i)
            elif via == "pop+insert":
                sub.pop(i)
            elif via == "remove+insert":
                sub.remove(old)
            else:
                raise ValueError(via)
            seq.subunits.insert(i, new)
    elif kind == "remove":
        m = len(initial) - len(final)
        if via == "drop":
            for _ in range(m):
                seq.drop(len(seq) - 1)
        elif via == "del":
            for _ in range(m):
                del sub[len(sub) - 1]
        elif via == "pop":
            for _ in range(m):
                sub.pop()
        elif via == "remove":
            for u in reversed(initial[len(final):]):
                sub.remove(u)
        elif via == "del-slice":
            del sub[len(final):]
        elif via == "slice-assign-empty":
            sub[len(final):] = []
        else:
            raise ValueError(via)
    else:
        raise ValueError(kind)


def build(desc, roll_speeds=None, fresh=False):
    """-> Built(seq, in_profile, cleanup, current, ...)  from a case description.
    `roll_speeds` (rotational frequencies, one per pass): build the same mill driven by its rolls instead.
    `fresh` (implied by roll_speeds): the line under test built in one go, without the history of desc["arrange"].
    `b.current` is the HARNESS's own list of the roll passes that are in the line right now (kept up to date by
    `b.rearrange()`); nothing the harness reads afterwards goes through `PassSequence.roll_passes`."""
    from pyroll.core import Profile, Roll, RollPass, ThreeRollPass, Transport, PassSequence
    b = Built()
    sp = desc["spread"]
    cleanup = []
    Base = ThreeRollPass if desc.get("pass_kind") == "three" else RollPass
    if sp["kind"] == "none":
        RP = Base
    elif sp.get("where") == "core":
        hf = Base.OutProfile.width(_spread_fn(sp))
        cleanup.append(lambda: Base.OutProfile.width.remove_function(hf))
        RP = Base
    else:
        OP = type("C19OutProfile", (Base.OutProfile,), {})
        RP = type("C19RollPass", (Base,), {"OutProfile": OP})
        RP.OutProfile.width(_spread_fn(sp))
    b.cleanup = cleanup
    b.pass_class = RP
    try:
        def mk_pass(p, k, label):
            return RP(label=label, roll=Roll(groove=_groove(p["groove"]), nominal_radius=p["radius"],
                                             **_roll_kwargs(desc, k, roll_speeds)),
                      gap=p["gap"], **_pass_kwargs(desc, k, roll_speeds))
        units = []
        passes = desc["passes"]
        for k, p in enumerate(passes):
            units.append(mk_pass(p, k, f"P{k}"))
            if k < len(passes) - 1:
                units.append(Transport(label=f"T{k}", length=desc["transports"][k]))
        if desc.get("lead_transport"):
            units.insert(0, Transport(label="T-in", length=desc["lead_transport"]))
        if desc.get("tail_transport"):
            units.append(Transport(label="T-out", length=desc["tail_transport"]))
        final = list(units)
        is_pass = lambda u: isinstance(u, RP)
        arr = desc.get("arrange") if not (fresh or roll_speeds is not None) else None
        initial, new_units = final, []
        if arr:
            kind = arr["kind"]
            pidx = [i for i, u in enumerate(final) if is_pass(u)]
            if kind == "tail":               # the last k stands (and what stands between and behind them) come later
                cut = pidx[len(pidx) - arr["k"] - 1] + 1
                initial, new_units = final[:cut], final[cut:]
            elif kind == "head":             # the first k stands come later
                cut = pidx[arr["k"]]
                initial, new_units = final[cut:], final[:cut]
            elif kind == "exchange":         # another stand was at this place
                i = pidx[arr["index"]]
                arr = dict(arr, unit_index=i)
                initial = list(final)
                initial[i] = mk_pass(arr["old"], None, f"P{arr['index']}-before")
                new_units = [final[i]]
            elif kind == "remove":           # further stands behind the line under test
                initial = list(final)
                for j, p in enumerate(arr["extra"]):
                    initial.append(Transport(label=f"T-extra{j}", length=arr["extra_transports"][j]))
                    initial.append(mk_pass(p, None, f"P-extra{j}"))
            else:
                raise ValueError(kind)
        b.final_units, b.initial_units = final, initial
        b.current = [u for u in initial if is_pass(u)]
        rec = []

        def _f(get):
            try:
                return float(get())
            except Exception as ex:          # a pass that has no velocity / no out profile (yet): recorded as NaN
                if not _from_pyroll(ex) and not isinstance(ex, (AttributeError, TypeError)):
                    raise
                return math.nan

        def rec_solve(self, in_profile):
            ps = list(b.current)
            rec.append(("v", [_f(lambda: rp.velocity) for rp in ps]))
            r = PassSequence.solve(self, in_profile)
            rec.append(("A", [_f(lambda: rp.out_profile.cross_section.area) for rp in ps]))
            return r
        Seq = type("C19Sequence", (PassSequence,), {"solve": rec_solve})
        kw = {}
        if desc.get("budget") is not None:
            kw["max_iteration_count"] = desc["budget"]
        b.seq = Seq(list(initial), **kw)
        b.rec = rec
        b.rearranged = not arr

        def rearrange():
            if b.rearranged:
                return
            _rearrange(b.seq, arr, initial, final, new_units)
            b.current = [u for u in final if is_pass(u)]
            b.rearranged = True
        b.rearrange = rearrange

        def make_in_profile():
            kwp = dict(diameter=desc["in_diameter"], temperature=1200 + 273.15, material=["C45", "steel"], flow_stress=100e6,
                       density=7.5e3, specific_heat_capacity=690)
            ie = desc.get("in_extras")
            if not ie:
                return Profile.round(**kwp)
            if ie.get("via") == "upstream":
                # the incoming profile is what an upstream unit handed over: it carries that unit's results (velocity, t, x, ...)
                up = Transport(label="upstream", length=ie["length"])
                return up.solve(Profile.round(velocity=ie["velocity"], **kwp))
            return Profile.round(**kwp, **{k: v for k, v in ie.items() if k != "via"})
        b.make_in_profile = make_in_profile
        b.in_profile = b.make_in_profile()
    except BaseException:
        for c in cleanup:
            c()
        raise
    return b


IN_DIAMETER = {"oval-round": 30e-3, "box": 30e-3, "diamond-square": 32e-3, "three-oval-round": 55e-3}


def _gen_pass(rng, fam, k, s):
    """pass number k of a line of the family, `s` = scale of the workpiece at that point -> (pass description, next scale)"""
    U = rng.uniform
    s2 = s
    if fam == "oval-round":
        if k % 2 == 0:
            g = {"kind": "oval", "args": dict(depth=8e-3 * s * U(0.95, 1.05), r1=6e-3 * s, r2=40e-3 * s * U(0.95, 1.1))}
        else:
            g = {"kind": "round", "args": dict(r1=1e-3 * s, r2=12.5e-3 * s * U(0.98, 1.04), depth=11.5e-3 * s)}
            s2 = s * 0.8
    elif fam == "three-oval-round":
        # grooves of three-roll passes (pad angle 30 degrees), sized like the library's three-roll test line
        if k % 2 == 0:
            g = {"kind": "oval", "args": dict(depth=8e-3 * s * U(0.95, 1.05), r1=6e-3 * s, r2=40e-3 * s * U(0.95, 1.1), pad_angle=30)}
        else:
            g = {"kind": "round", "args": dict(r1=3e-3 * s, r2=25e-3 * s * U(0.98, 1.04), depth=11e-3 * s, pad_angle=30)}
            s2 = s * 0.85
    elif fam == "box":
        g = {"kind": "box", "args": dict(r1=2e-3 * s, r2=4e-3 * s, depth=11e-3 * s * U(0.95, 1.05), usable_width=31e-3 * s,
                                        ground_width=25e-3 * s)}
        s2 = s * 0.9
    else:
        if k % 2 == 0:
            g = {"kind": "diamond", "args": dict(r1=3e-3 * s, r2=5e-3 * s, usable_width=40e-3 * s * U(0.97, 1.05),
                                            tip_depth=11.5e-3 * s)}
        else:
            g = {"kind": "square", "args": dict(r1=3e-3 * s, r2=4e-3 * s, usable_width=30e-3 * s * U(0.98, 1.03),
                                           tip_depth=15e-3 * s)}
            s2 = s * 0.82
    return {"groove": g, "radius": 160e-3 * U(0.8, 1.2), "gap": 2e-3 * s2 * U(0.7, 1.3)}, s2


def _scale_after(fam, n):
    s = 1.0
    for k in range(n):
        if fam == "box":
            s *= 0.9
        elif k % 2 == 1:
            s *= {"oval-round": 0.8, "three-oval-round": 0.85}.get(fam, 0.82)
    return s


def gen_desc(rng, force=None, pool=None):
    force = force or {}
    # every kind of roll pass the package has: two-roll passes (RollPass) and three-roll passes
    three = force.get("pass_kind") == "three" or ("family" not in force and "pass_kind" not in force and rng.random() < 0.15)
    fam = force.get("family") or ("three-oval-round" if three else
                                  rng.choice(["oval-round", "oval-round", "oval-round", "box", "diamond-square"]))
    n = force.get("n") or rng.choice([2, 2, 3, 3, 4, 5])
    s = 1.0
    passes = []
    U = rng.uniform
    for k in range(n):
        p, s = _gen_pass(rng, fam, k, s)
        passes.append(p)
    if three:
        # (the draught power law is a spread model for two-roll passes)
        skind = force.get("spread") or rng.choice(["none", "fill", "fill", "fill", "vfill", "vfill"])
    else:
        skind = force.get("spread") or rng.choice(["none", "fill", "fill", "draught", "draught", "vfill", "vfill", "vdraught"])
    sp = {"kind": skind}
    if skind != "none":
        sp["where"] = "core" if rng.random() < 0.2 else "subclass"
        sp["e"] = rng.choice([-0.5, -0.45, -0.4])
        sp["fill"] = U(0.86, 0.97)
        if skind.startswith("v"):
            sp["c"] = rng.choice([0.02, 0.05, 0.1])
            if skind == "vfill" and rng.random() < 0.4:
                # strong (but still contractive, q <= 0.3) velocity dependence: the residual after the stop test is then a
                # sizeable fraction of the last step, so a loosened tolerance shows in the final flux
                sp["c"] = 0.3
                sp["fill"] = U(0.68, 0.75)
    mode = force.get("mode") or rng.choice(["b", "f"])
    speed = force.get("speed") or math.exp(U(math.log(0.3), math.log(60)))
    budget = force.get("budget", rng.choice([None, None, None, None, 2, 2, 3, 4]))
    if skind.startswith("v"):
        if budget is not None and "speed" not in force:
            speed = math.exp(U(math.log(10), math.log(60)))     # makes running out of budget likely
        sp["vref"] = speed * U(0.5, 2)
    desc = {"family": fam, "passes": passes, "transports": [U(0.5, 3) for _ in range(max(n - 1, 0))],
            "in_diameter": IN_DIAMETER[fam] * U(0.96, 1.03),
            "spread": sp, "mode": mode, "speed": speed,
            "final_area_factor": rng.choice([1.0, U(0.8, 1.2)]),
            "budget": budget}
    if three:
        desc["pass_kind"] = "three"
    # (no transport in front of the first pass: Transport.velocity of a first unit raises IndexError - finding F13 of C16)
    if rng.random() < 0.15:
        desc["tail_transport"] = U(0.5, 2)
    if not force.get("plain"):
        decorate(rng, desc, pool)
        decorate_call(rng, desc)
    return desc


# ---------------------------------------------------------------------------------------------------------
# what the property quantifies over implicitly: the state of the objects handed to the calculation
# ---------------------------------------------------------------------------------------------------------
# "for every sequence": a PassSequence is a mutable object.  The generators below reach
#   * passes / rolls carrying user-provided values for hooks the code under test has NO implementation of (their only
#     source is the user or a plugin model), with priority for attribute names whose presence an anchored hook
#     implementation tests (read from the current source by the translator),
#   * rolls whose neutral plane is given - as angle or as point (the angle is then only derivable through its hook),
#   * sequences that are not fresh: passes constructed with / assigned explicit velocities, a plain solve, an earlier
#     velocity calculation in the same or the other direction and with another speed, attributes read (= cached) before
#     the call, the same or a new incoming profile object; a calculation on another sequence object just before.

PRE_READS = ["roll.neutral_angle", "roll.neutral_point", "roll.working_radius", "roll.working_velocity",
             "roll.rotational_frequency", "velocity", "usable_cross_section.area", "roll.exit_angle", "volume_flux"]


def extras_pool(hooks=None):
    """{"pass": [...], "roll": [...]}: float-typed hooks of the roll pass / its roll without any implementation in the tree
    under test; names tested in guards of the anchored hook implementations come first"""
    from pyroll.core import RollPass
    pool = {}
    for where, cls in (("pass", RollPass), ("roll", RollPass.Roll)):
        names = []
        for n in sorted(cls.__hooks__):
            h = getattr(cls, n)
            try:
                t = h.type
            except TypeError:
                continue
            if t is float and not h.functions:
                names.append(n)
        pool[where] = names
    tested = {"pass": [], "roll": []}

    def walk(g, host):
        if not isinstance(g, tuple):
            return
        if g[0] in ("hasValue", "hasSet", "hasSetOrCached", "hasCached") and len(g) == 3:
            last = g[1].split(".")[-1] if g[1] else ""
            where = "pass" if last in ("roll_pass", "unit") else "roll" if last == "roll" else \
                ("roll" if host.endswith(".Roll") else None if "Profile" in host else "pass") if last == "" else None
            if where and g[2] not in tested[where]:
                tested[where].append(g[2])
        for x in g[1:]:
            walk(x, host)
    for impl in (hooks or {}).values():
        for alt in impl.alts:
            walk(alt[0], impl.host or "")
    for where in ("pass", "roll"):
        first = [n for n in tested[where] if n in pool[where]]
        pool[where] = first + [n for n in pool[where] if n not in first]
        pool[where + "_tested"] = first
    return pool


def _extra_value(rng):
    return math.exp(rng.uniform(math.log(0.02), math.log(0.4)))


def decorate(rng, desc, pool=None):
    """add (with moderate probability each) user-provided extras, a neutral plane, a history"""
    n = len(desc["passes"])
    U = rng.uniform
    if n == 0:
        return
    if pool and rng.random() < 0.25:
        for where in ("pass", "roll"):
            names = pool.get(where) or []
            if not names or (where == "roll" and rng.random() < 0.5):
                continue
            ex = []
            for k in range(n):
                d = {}
                if rng.random() < 0.7:
                    chosen = list(pool.get(where + "_tested") or [])[:2] if rng.random() < 0.7 else []
                    chosen += rng.sample(names, min(len(names), rng.choice([1, 1, 2])))
                    for nm in chosen:
                        d[nm] = _extra_value(rng)
                ex.append(d)
            if any(ex):
                desc[where + "_extras"] = ex
    if rng.random() < 0.25:
        if rng.random() < 0.5:
            desc["neutral"] = {"kind": "angle", "values": [-U(0.05, 0.4) for _ in range(n)]}
        else:
            desc["neutral"] = {"kind": "point", "values": [-U(0.05, 0.35) * p["radius"] for p in desc["passes"]]}
    if rng.random() < 0.25:
        pre = []
        kind = rng.choice(["calc-same", "calc-same", "calc-other", "construct", "construct+solve", "assign", "assign+solve", "read",
                           "read", "other"])
        speeds = lambda: [math.exp(U(math.log(0.3), math.log(20))) for _ in range(n)]
        if kind.startswith("calc"):
            other = {"b": "f", "f": "b"}[desc["mode"]]
            pre.append({"op": "calc", "mode": desc["mode"] if kind == "calc-same" else other,
                        "speed": desc["speed"] * rng.choice([U(0.3, 0.8), U(1.3, 3)]), "final_area_factor": 1.0})
        elif kind.startswith("construct"):
            desc["construct_velocities"] = speeds()
            if kind.endswith("solve"):
                pre.append({"op": "solve"})
        elif kind.startswith("assign"):
            pre.append({"op": "velocities", "values": speeds()})
            if kind.endswith("solve"):
                pre.append({"op": "solve"})
        elif kind == "other":
            pre.append({"op": "other", "mode": rng.choice("bf"), "speed": math.exp(U(math.log(0.3), math.log(60)))})
        else:
            pre.append({"op": "read", "what": rng.sample(PRE_READS, rng.choice([1, 2, 3]))})
        if pre and rng.random() < 0.3 and pre[-1]["op"] != "read":
            pre.append({"op": "read", "what": rng.sample(PRE_READS, rng.choice([1, 2]))})
        if pre:
            desc["pre"] = pre
        if rng.random() < 0.5:
            desc["reuse_in_profile"] = True
    if n >= 2 and (desc.get("neutral") or rng.random() < 0.1):
        desc["mill"] = True


def decorate_call(rng, desc):
    """further things "every sequence / every incoming profile / every prescribed speed" ranges over (about a fifth each):
      * the prescribed speed written as an integer or handed over as a numpy scalar (`final_speed=10`),
      * an incoming profile that already carries results of an upstream unit (velocity, t, x, length, strain) - either
        given at construction or really handed over by an upstream unit,
      * rolls defined with a rotational frequency (the velocity calculation then overrides what the rolls would give),
      * a line that was RE-ARRANGED after something had already happened to the sequence object (a calculation, a plain
        solve, lists read): stands added behind / in front, a stand exchanged, stands removed - through
        PassSequence.append/prepend/drop or through the live list `sequence.subunits`."""
    n = len(desc["passes"])
    U = rng.uniform
    if n == 0:
        return
    if rng.random() < 0.2:
        desc["speed_type"] = rng.choice(SPEED_TYPES)
        if "int" in desc["speed_type"]:
            desc["speed"] = float(max(1, round(desc["speed"])))
    if rng.random() < 0.2:
        if rng.random() < 0.5:
            desc["in_extras"] = {"via": "upstream", "velocity": math.exp(U(math.log(0.2), math.log(30))), "length": U(0.5, 3)}
        else:
            pool = {"velocity": math.exp(U(math.log(0.2), math.log(30))), "t": U(1, 100), "x": U(1, 50), "length": U(1, 20),
                    "strain": U(0.05, 0.5)}
            keys = ["velocity"] + rng.sample(["t", "x", "length", "strain"], rng.choice([0, 1, 2]))
            if rng.random() < 0.2:
                keys = keys[1:] or ["t"]
            desc["in_extras"] = {k: pool[k] for k in keys}
    if not desc.get("mill") and rng.random() < 0.2:
        desc["roll_frequency"] = [math.exp(U(math.log(0.2), math.log(20))) for _ in range(n)]
    if n >= 2 and rng.random() < 0.2:
        arrange(rng, desc)


def arrange(rng, desc, kind=None, via=None, filler=None):
    """the line under test (desc["passes"]) is the result of a re-arrangement of a sequence object that was used before"""
    n = len(desc["passes"])
    U = rng.uniform
    fam = desc["family"]
    kind = kind or rng.choice(["tail", "tail", "exchange", "exchange", "head", "remove"])
    arr = {"kind": kind, "via": via or rng.choice(ARRANGE_VIA[kind])}
    if kind in ("tail", "head"):
        arr["k"] = 1 if n == 2 else rng.choice([1, 1, 2])
    elif kind == "exchange":
        j = rng.randrange(n)
        old = json.loads(json.dumps(desc["passes"][j]))
        old["gap"] *= U(1.1, 1.4)
        old["radius"] *= U(0.85, 1.1)
        arr["index"], arr["old"] = j, old
    else:
        m = rng.choice([1, 1, 2])
        s = _scale_after(fam, n)
        arr["extra"], arr["extra_transports"] = [], []
        for k in range(n, n + m):
            p, s = _gen_pass(rng, fam, k, s)
            arr["extra"].append(p)
            arr["extra_transports"].append(U(0.5, 3))
    # what happened to the sequence object before the re-arrangement: whatever is already in the history, else one of these
    pre = list(desc.get("pre") or [])
    filler = filler or rng.choice(["calc", "calc", "calc-other", "solve", "seqread", "seqread", "none"])
    if kind == "head" and filler in ("calc", "calc-other", "solve"):
        tolerate = True                      # the stock may not fit the later stands alone: an attempt that fails is history too
    else:
        tolerate = False
    if not pre:
        if filler.startswith("calc"):
            other = {"b": "f", "f": "b"}[desc["mode"]]
            pre.append({"op": "calc", "mode": desc["mode"] if filler == "calc" else other,
                        "speed": desc["speed"] * rng.choice([U(0.3, 0.8), 1.0, U(1.3, 3)]), "final_area_factor": 1.0})
        elif filler == "solve":
            pre.append({"op": "solve"})
        elif filler == "seqread":
            pre.append({"op": "seqread", "what": rng.sample(SEQ_READS, rng.choice([1, 2, 3]))})
        if pre and tolerate:
            pre[-1]["tolerate"] = True
    pre.append({"op": "rearrange"})
    if rng.random() < 0.3:
        pre.append({"op": "seqread", "what": rng.sample(SEQ_READS, rng.choice([1, 2]))})
    desc["arrange"] = arr
    desc["pre"] = pre
    return desc


def _test_seq(mode):
    """the sequence of tests/pass_sequence/test_pass_sequence_*_velocity_calculation.py"""
    return {"family": "oval-round", "passes": [
        {"groove": {"kind": "oval", "args": dict(depth=8e-3, r1=6e-3, r2=40e-3)}, "radius": 160e-3, "gap": 2e-3},
        {"groove": {"kind": "round", "args": dict(r1=1e-3, r2=12.5e-3, depth=11.5e-3)}, "radius": 160e-3, "gap": 2e-3},
        {"groove": {"kind": "oval", "args": dict(depth=6e-3, r1=6e-3, r2=35e-3)}, "radius": 160e-3, "gap": 2e-3}],
        "transports": [1, 1], "in_diameter": 30e-3, "spread": {"kind": "draught", "e": -0.5, "where": "subclass"},
        "mode": mode, "speed": 1.5, "final_area_factor": 1.0, "budget": None}


def _test_seq3(mode):
    """a line of three-roll passes: the two stands of tests/test_solve3.py and a third one sized by the generator's rule"""
    s = _scale_after("three-oval-round", 2)
    return {"family": "three-oval-round", "pass_kind": "three", "passes": [
        {"groove": {"kind": "oval", "args": dict(depth=8e-3, r1=6e-3, r2=40e-3, pad_angle=30)}, "radius": 160e-3, "gap": 2e-3},
        {"groove": {"kind": "round", "args": dict(r1=3e-3, r2=25e-3, depth=11e-3, pad_angle=30)}, "radius": 160e-3, "gap": 2e-3},
        {"groove": {"kind": "oval", "args": dict(depth=8e-3 * s, r1=6e-3 * s, r2=40e-3 * s, pad_angle=30)}, "radius": 160e-3, "gap": 2e-3 * s}],
        "transports": [1, 1], "in_diameter": 55e-3, "spread": {"kind": "fill", "fill": 0.9, "where": "subclass"},
        "mode": mode, "speed": 1.5, "final_area_factor": 1.0, "budget": None}


def call_corpus():
    """one case per way of writing the speed, kind of roll pass, content of the incoming profile and kind of re-arrangement
    (see `decorate_call`), on the lines of the test suite"""
    out = []

    def seq(mode, n=3, three=False, **kw):
        d = _test_seq3(mode) if three else _test_seq(mode)
        d["passes"] = d["passes"][:n]
        d["transports"] = d["transports"][:n - 1]
        d.update(kw)
        return d
    # the prescribed speed as an integer / numpy scalar
    out.append(seq("b", 3, speed=10.0, speed_type="int"))
    out.append(seq("b", 2, speed=25.0, speed_type="np.int64", final_area_factor=0.9))
    out.append(seq("f", 2, speed=2.0, speed_type="int"))
    out.append(seq("b", 2, speed=7.5, speed_type="np.float64"))
    # three-roll passes: plain, spread model on the core class, velocity-dependent filling, rolls with a neutral plane
    out.append(seq("b", 3, three=True, speed=20.0, final_area_factor=0.93))
    out.append(seq("f", 2, three=True, speed=5.0))
    out.append(seq("b", 2, three=True, speed=8.0, spread={"kind": "fill", "fill": 0.92, "where": "core"}))
    out.append(seq("f", 2, three=True, speed=12.0, spread={"kind": "vfill", "fill": 0.9, "c": 0.1, "vref": 6.0, "where": "subclass"}))
    out.append(seq("b", 2, three=True, speed=6.0, neutral={"kind": "point", "values": [-15e-3, -25e-3]}, mill=True))
    # the incoming profile carries values: given at construction / handed over by an upstream unit
    out.append(seq("b", 2, speed=6.0, in_extras={"velocity": 3.0}))
    out.append(seq("f", 2, speed=5.0, in_extras={"via": "upstream", "velocity": 1.2, "length": 2.0}))
    out.append(seq("b", 2, speed=2.0, in_extras={"t": 12.0, "x": 3.0, "strain": 0.2}))
    out.append(seq("b", 2, three=True, speed=6.0, in_extras={"velocity": 3.0}))
    out.append(seq("f", 2, three=True, speed=2.0, in_extras={"velocity": 0.4, "t": 30.0, "length": 4.0}))
    out.append(seq("f", 3, three=True, speed=5.0, in_extras={"via": "upstream", "velocity": 1.2, "length": 2.0}))
    # rolls defined with a rotational frequency
    out.append(seq("b", 2, speed=5.0, roll_frequency=[1.0, 1.0]))
    out.append(seq("f", 2, speed=1.0, roll_frequency=[0.5, 2.0], neutral={"kind": "angle", "values": [-0.1, -0.2]}))
    # a line that was re-arranged after the sequence object had been used (with and without roll speeds of their own: a
    # stand the calculation does not reach keeps its roll-driven velocity, resp. cannot be solved at all)
    calc = lambda mode, speed: {"op": "calc", "mode": mode, "speed": speed, "final_area_factor": 1.0}
    arr = lambda d, **a: dict(d, arrange=a)
    third = _test_seq("b")["passes"][2]
    out.append(arr(seq("b", 3, speed=12.0, roll_frequency=[1.0, 1.0, 1.0], pre=[calc("b", 8.0), {"op": "rearrange"}]),
                   kind="tail", via="subunits.extend", k=1))
    out.append(arr(seq("b", 2, speed=12.0, pre=[calc("b", 8.0), {"op": "rearrange"}]), kind="tail", via="subunits+=", k=1))
    old = {"groove": {"kind": "round", "args": dict(r1=1e-3, r2=12.5e-3, depth=11.5e-3)}, "radius": 180e-3, "gap": 3e-3}
    out.append(arr(seq("f", 2, speed=2.0, roll_frequency=[1.0, 1.0], pre=[calc("f", 2.0), {"op": "rearrange"}]),
                   kind="exchange", via="setitem", index=1, old=old))
    out.append(arr(seq("b", 2, speed=3.0, pre=[{"op": "seqread", "what": ["roll_passes", "len"]}, {"op": "rearrange"},
                                               {"op": "seqread", "what": ["units"]}]),
                   kind="exchange", via="del+insert", index=1, old=old))
    out.append(arr(seq("f", 2, speed=1.0, roll_frequency=[1.0, 1.0], pre=[{"op": "seqread", "what": ["roll_passes"]}, {"op": "rearrange"}]),
                   kind="head", via="subunits.insert-front", k=1))
    out.append(arr(seq("b", 2, speed=4.0, pre=[dict(calc("b", 2.0), tolerate=True), {"op": "rearrange"}]), kind="head", via="prepend", k=1))
    out.append(arr(seq("b", 2, speed=9.0, roll_frequency=[1.0, 1.0], pre=[calc("b", 14.0), {"op": "rearrange"}]),
                   kind="remove", via="del-slice", extra=[third], extra_transports=[1.0]))
    out.append(arr(seq("b", 2, three=True, speed=10.0, roll_frequency=[1.0, 1.0], pre=[{"op": "solve"}, {"op": "rearrange"}]),
                   kind="tail", via="subunits.append", k=1))
    return out


def corpus(pool=None):
    out = [_test_seq("b"), _test_seq("f")]
    out += history_corpus(pool)
    out += call_corpus()
    for mode in "bf":
        for budget, sk, speed in ((2, "fill", 5.0), (3, "fill", 5.0), (2, "vfill", 50.0), (3, "vdraught", 40.0), (None, "none", 0.5),
                                  (None, "vdraught", 20.0)):
            d = _test_seq(mode)
            d["spread"] = {"kind": sk, "where": "subclass", "fill": 0.9, "e": -0.5}
            if sk.startswith("v"):
                d["spread"].update(c=0.1, vref=speed / 2)
            d["budget"] = budget
            d["speed"] = speed
            d["final_area_factor"] = 0.9
            out.append(d)
        d = _test_seq(mode)                      # two passes only, spread on the core class (removed in finally)
        d["passes"] = d["passes"][:2]
        d["transports"] = d["transports"][:1]
        d["spread"] = {"kind": "draught", "e": -0.5, "where": "core"}
        out.append(d)
        d = _test_seq(mode)                      # model edge: one pass / no pass at all
        d["passes"] = d["passes"][:1]
        d["transports"] = []
        out.append(d)
        d = _test_seq(mode)
        d["passes"] = []
        d["transports"] = []
        d["lead_transport"] = 1.0
        out.append(d)
    return out


def history_corpus(pool=None):
    """the test-suite sequence (two- and three-pass) as a NON-fresh object / with user-provided data: one case per kind of
    history, neutral-plane description and extra attribute (see `decorate`)"""
    out = []

    def seq(mode, n=3, **kw):
        d = _test_seq(mode)
        d["passes"] = d["passes"][:n]
        d["transports"] = d["transports"][:n - 1]
        d.update(kw)
        return d
    # an earlier calculation with another speed, same and other direction; the same in-profile object or a new one
    out.append(seq("b", 2, speed=2.5, pre=[{"op": "calc", "mode": "b", "speed": 1.5, "final_area_factor": 1.0}]))
    out.append(seq("b", 2, speed=4.0, pre=[{"op": "calc", "mode": "f", "speed": 1.0, "final_area_factor": 1.0}], reuse_in_profile=True))
    out.append(seq("f", 2, speed=0.8, pre=[{"op": "other", "mode": "b", "speed": 7.0}]))
    # explicit pass velocities: given at construction / assigned, with and without a plain solve in between
    out.append(seq("b", 2, speed=3.0, construct_velocities=[1.0, 1.0], pre=[{"op": "solve"}]))
    out.append(seq("b", 2, speed=0.7, construct_velocities=[2.0, 3.0]))
    out.append(seq("f", 2, speed=2.0, pre=[{"op": "velocities", "values": [4.0, 9.0]}, {"op": "solve"}], reuse_in_profile=True))
    # neutral plane given as angle / as point, nothing read before / the angle read before; the mill is set to the result
    out.append(seq("b", 2, speed=2.0, neutral={"kind": "angle", "values": [-0.10, -0.30]}, mill=True))
    out.append(seq("b", 3, speed=2.0, neutral={"kind": "point", "values": [-15e-3, -30e-3, -45e-3]}, mill=True))
    out.append(seq("f", 2, speed=1.0, neutral={"kind": "point", "values": [-40e-3, -12e-3]}, mill=True))
    out.append(seq("f", 2, speed=1.0, neutral={"kind": "point", "values": [-40e-3, -12e-3]}, mill=True,
                   pre=[{"op": "read", "what": ["roll.neutral_angle"]}]))
    out.append(seq("b", 2, speed=1.0, pre=[{"op": "read", "what": ["roll.working_velocity", "velocity", "volume_flux"]}]))
    # every float hook of pass and roll that has no implementation in the tree gets a user value (different per pass;
    # forward: on the first pass only)
    if pool:
        for mode in "bf":
            d = seq(mode, 2, speed=1.0 if mode == "f" else 2.0, mill=True)
            for where in ("pass", "roll"):
                if pool.get(where):
                    d[where + "_extras"] = [{nm: round(0.03 + 0.05 * k + 0.01 * j, 4) for j, nm in enumerate(pool[where])}
                                            if k == 0 or mode == "b" else {} for k in range(2)]
            out.append(d)
    return out


# ---------------------------------------------------------------------------------------------------------
# running one case on the real implementation
# ---------------------------------------------------------------------------------------------------------

class Outcome:
    pass


def _from_pyroll(ex):
    import traceback
    e = ex
    while e is not None:
        if any("/pyroll/" in f.filename for f in traceback.extract_tb(e.__traceback__)):
            return True
        e = e.__cause__
    return False


def _read_path(obj, path):
    """read an attribute the way user code does before handing the object over (a value that cannot be provided is no error)"""
    try:
        for part in path.split("."):
            obj = getattr(obj, part)
        return obj
    except AttributeError:
        return None


def _call(seq, in_profile, mode, speed, final_area_factor, usable, speed_type=None):
    speed = _num(speed, speed_type)
    if mode == "b":
        aux = (usable[-1] if usable else 4e-4) * final_area_factor
        seq.solve_velocities_backward(in_profile, speed, aux)
    else:
        aux = float(in_profile.cross_section.area)
        seq.solve_velocities_forward(in_profile, speed)
    return aux


def _usable(passes):
    return [float(rp.usable_cross_section.area) for rp in passes]


def _seq_read(seq, what):
    """read-only use of the sequence object, the way user code looks at a line"""
    if what == "roll_passes":
        return len(seq.roll_passes)
    if what == "units":
        return len(seq.units)
    if what == "transports":
        return len(seq.transports)
    if what == "subunits":
        return len(seq.subunits)
    if what == "len":
        return len(seq)
    if what == "iter":
        return [u.label for u in seq]
    if what == "getitem-last":
        return seq[-1].label
    if what == "by-label":
        return seq[seq[0].label].label
    raise ValueError(what)


def run_history(b, desc, o):
    """what happened to the sequence object before the call under test (desc["pre"])"""
    seq = b.seq
    for op in desc.get("pre") or []:
        prof = b.in_profile if desc.get("reuse_in_profile") else b.make_in_profile()
        try:
            if op["op"] == "velocities":
                for rp, v in zip(b.current, op["values"]):
                    rp.velocity = v
            elif op["op"] == "solve":
                if not all(rp.has_set("velocity") for rp in b.current):
                    for rp in b.current:
                        rp.velocity = 1.0
                seq.solve(prof)
            elif op["op"] == "calc":
                _call(seq, prof, op["mode"], op["speed"], op["final_area_factor"], _usable(b.current), op.get("speed_type"))
            elif op["op"] == "other":
                # a calculation on ANOTHER sequence object in the same process (whatever the code keeps outside the objects)
                d2 = _test_seq(op["mode"])
                d2["passes"], d2["transports"], d2["speed"] = d2["passes"][:2], d2["transports"][:1], op["speed"]
                b2 = build(d2)
                try:
                    _call(b2.seq, b2.in_profile, op["mode"], op["speed"], 1.0, _usable(b2.current))
                finally:
                    for c in b2.cleanup:
                        c()
            elif op["op"] == "read":
                for rp in b.current:
                    for path in op["what"]:
                        _read_path(rp, path)
            elif op["op"] == "seqread":
                for what in op["what"]:
                    _seq_read(seq, what)
            elif op["op"] == "rearrange":
                b.rearrange()
            else:
                raise ValueError(op)
        except Exception as ex:
            if not (op.get("tolerate") and _from_pyroll(ex)):
                raise
            o.tolerated = type(ex).__name__      # an attempt that failed is part of the object's history as well
    b.rearrange()                                # (a description without an explicit rearrange step)


def run_real(desc):
    """execute the case; harness errors propagate, exceptions from inside pyroll are returned in o.error"""
    from pyroll.core import BaseRollPass
    o = Outcome()
    b = build(desc)
    try:
        seq = b.seq
        o.error = None
        o.pre_error = None
        o.tolerated = None
        o.arrangement_ok = True
        try:
            o.budget = int(seq.max_iteration_count)
            try:
                run_history(b, desc, o)
            except Exception as ex:
                if not _from_pyroll(ex):
                    raise
                o.pre_error = ex
                raise
            finally:
                # the line under test: the roll passes the harness itself has put there
                o.n = len(b.current)
                o.usable = _usable(b.current)
                o.unit_kinds = [isinstance(u, BaseRollPass) for u in (b.final_units if b.rearranged else b.initial_units)]
            # (independent of PassSequence.roll_passes: the units one gets by iterating over the sequence)
            o.arrangement_ok = [id(u) for u in seq] == [id(u) for u in b.final_units]
            del b.rec[:]                     # only the call under test is compared with the model
            prof = b.in_profile if desc.get("reuse_in_profile") else b.make_in_profile()
            o.aux = _call(seq, prof, desc["mode"], desc["speed"], desc["final_area_factor"], o.usable, desc.get("speed_type"))
        except Exception as ex:
            if not _from_pyroll(ex):
                raise
            o.error = ex
            if desc["mode"] == "b":
                o.aux = (o.usable[-1] if getattr(o, "usable", None) else 4e-4) * desc["final_area_factor"]
            else:
                o.aux = float(b.in_profile.cross_section.area)
        o.written = [r[1] for r in b.rec if r[0] == "v"]       # velocities on the passes before every solve call
        o.areas = [r[1] for r in b.rec if r[0] == "A"]         # out areas after every solve call
        if o.error is None:
            ps = b.current
            try:
                # the roll speeds first: nothing else has been read on the rolls since the call returned
                o.freq = [float(rp.roll.rotational_frequency) for rp in ps]
                o.wv = []
                for rp in ps:
                    r = rp.roll
                    wv = float(r.working_velocity)
                    ang = float(r.neutral_angle) if r.has_value("neutral_angle") else float(r.exit_angle)
                    o.wv.append((wv, ang))
                o.v = [float(rp.velocity) for rp in ps]
                o.A = [float(rp.out_profile.cross_section.area) for rp in ps]
                o.v_in = [float(rp.in_profile.velocity) for rp in ps]
                o.A_in = [float(rp.in_profile.cross_section.area) for rp in ps]
                o.v_out = [float(rp.out_profile.velocity) for rp in ps]
                o.vflux = [float(rp.volume_flux) for rp in ps]
                o.prec = [float(rp.iteration_precision) for rp in ps]
                o.set_v = [bool(rp.has_set("velocity")) for rp in ps]
            except Exception as ex:
                # the call returned normally, but a roll pass of the line has no velocity / was never solved
                if not (_from_pyroll(ex) or isinstance(ex, (AttributeError, TypeError))):
                    raise
                o.unreadable = ex
        return o
    finally:
        for c in b.cleanup:
            c()


def run_mill(desc, freqs):
    """the same mill (same grooves, gaps, spread model, user data), no pass velocity given, every roll turning with the
    rotational frequency the velocity calculation resulted in; one plain `solve`"""
    m = Outcome()
    b = build(desc, roll_speeds=freqs)
    try:
        m.error = None
        try:
            b.seq.solve(b.make_in_profile())
        except Exception as ex:
            if not _from_pyroll(ex):
                raise
            m.error = ex
            return m
        ps = b.current
        m.v = [float(rp.velocity) for rp in ps]
        m.A = [float(rp.out_profile.cross_section.area) for rp in ps]
        m.prec = [float(rp.iteration_precision) for rp in ps]
        return m
    finally:
        for c in b.cleanup:
            c()


def solvable_without_velocity_calculation(desc):
    """control for a case on which the velocity calculation raised: the same sequence, velocity 1.0 set by hand on every
    pass, plain `solve`.  Only meaningful for spread models that do not look at the velocity."""
    b = build(desc, fresh=True)
    try:
        for rp in b.current:
            rp.velocity = 1.0
        try:
            b.seq.solve(b.in_profile)
        except Exception as ex:
            if not _from_pyroll(ex):
                raise
            return False
        return True
    finally:
        for c in b.cleanup:
            c()


def stop_test(prior, cur):
    """the property's reading of 'finished': every velocity moved by less than the loop tolerance in the last iteration"""
    return all(abs(p - c) < LOOP_TOL for p, c in zip(prior, cur))


def oracle(ctx, desc, o):
    """the property as stated, checked on the state the real call left behind; returns list of (key, what)"""
    bad = []
    if getattr(o, "pre_error", None) is not None:
        ctx.count("history-raised:" + type(o.pre_error).__name__)      # the call under test was never reached
        return bad
    if o.error is not None and o.n >= 2 and desc["spread"]["kind"] in ("none", "fill", "draught"):
        # The areas of this sequence do not depend on the velocities.  If it can be solved with velocities set by hand,
        # the velocity calculation (which only adds positive finite velocities) has to finish on it as well.
        if solvable_without_velocity_calculation(desc):
            cause = o.error.__cause__ or o.error
            bad.append((f"raises-on-solvable-sequence-{'backward' if desc['mode'] == 'b' else 'forward'}",
                        f"the velocity calculation raised {type(o.error).__name__}: {str(o.error)[:120]} "
                        f"({type(cause).__name__}: {str(cause)[:160]}) on a sequence that solves with hand-set velocities"))
        else:
            ctx.count("unsolvable-sequence")
        return bad
    if o.error is not None or o.n < 2:
        return bad
    if not o.arrangement_ok:
        ctx.count("line-not-as-arranged")    # the container did not do what was asked of it: not this property's business
        return bad
    iters = len(o.written) - 1
    finished = iters < o.budget or (iters >= 1 and stop_test(o.written[-2], o.written[-1]))
    if not finished:
        ctx.count("budget-exhausted")        # the property claims nothing; the call returned normally all the same
        return bad
    ctx.count("finished-within-budget")
    hist = _history_text(desc)
    if getattr(o, "unreadable", None) is not None:
        # "the same in EVERY roll pass": a roll pass of the line that has no velocity / no profiles after the calculation
        # finished carries no flux at all
        bad.append(("roll-pass-without-result", f"the calculation returned normally, but reading velocity / profiles / flux of the "
                    f"line's roll passes raised {type(o.unreadable).__name__}: {str(o.unreadable)[:160]}{hist}"))
        return bad
    anchor = o.n - 1 if desc["mode"] == "b" else 0
    phi = o.v[anchor] * o.A[anchor]
    # (1) equal flux within the loop tolerance: every pass velocity is within 0.01 of the velocity that carries the
    #     anchor pass's flux through this pass's out cross-section (i.e. one more iteration would also pass the stop test)
    for i in range(o.n):
        if not abs(o.v[i] - phi / o.A[i]) < LOOP_TOL * (1 + 1e-9):
            bad.append((f"flux-differs-{'backward' if desc['mode'] == 'b' else 'forward'}",
                        f"pass {i}: velocity {o.v[i]!r} * out area {o.A[i]!r} = {o.v[i] * o.A[i]!r}, flux of pass {anchor} is "
                        f"{phi!r}; equal flux needs velocity {phi / o.A[i]!r} (off by {abs(o.v[i] - phi / o.A[i])!r} >= {LOOP_TOL}){hist}"))
            break
    # (2) entry and exit velocities carry the same flux.  out.velocity is the pass velocity; in.velocity is evaluated
    #     one solve-iteration before the final out cross-section, hence the pass's iteration precision enters.
    for i in range(o.n):
        if not stub.close(o.v_out[i], o.v[i], rtol=1e-12):
            bad.append(("out-velocity-not-pass-velocity", f"pass {i}: out_profile.velocity {o.v_out[i]!r} != velocity {o.v[i]!r}"))
            break
        tol = LOOP_TOL + 3 * o.prec[i] * abs(o.v[i])
        if not abs(o.v_in[i] * o.A_in[i] / o.A[i] - o.v[i]) <= tol:
            bad.append(("in-out-flux-differs", f"pass {i}: in velocity*area {o.v_in[i] * o.A_in[i]!r} vs out "
                        f"{o.v[i] * o.A[i]!r} (velocity equivalent off by {abs(o.v_in[i] * o.A_in[i] / o.A[i] - o.v[i])!r} > {tol!r})"
                        + (f"; the incoming profile carried {desc['in_extras']!r}" if desc.get("in_extras") else "") + hist))
            break
    #     The flux a pass reports (`Unit.volume_flux`, pyroll/core/unit/hookimpls.py) is that same flux, in velocity units
    #     within the loop tolerance + the pass's iteration precision (a value that was read before the call is cached and
    #     re-evaluated in every solve iteration BEFORE the out cross-section of that iteration, like in_profile.velocity).
    for i in range(o.n):
        tol = LOOP_TOL + 3 * o.prec[i] * abs(o.v[i])
        if not abs(o.vflux[i] / o.A[i] - phi / o.A[i]) <= tol:
            bad.append(("volume-flux-differs", f"pass {i}: volume_flux {o.vflux[i]!r}, flux of pass {anchor} is {phi!r} "
                        f"(velocity equivalent off by {abs(o.vflux[i] / o.A[i] - phi / o.A[i])!r} > {tol!r})"))
            break
    # (3) backward: the last pass runs at exactly the prescribed final speed
    if desc["mode"] == "b" and not o.v[-1] == float(desc["speed"]):
        bad.append(("backward-final-speed", f"last pass velocity {o.v[-1]!r} != prescribed final speed "
                    f"{_num(desc['speed'], desc.get('speed_type'))!r}{hist}"
                    + (f" (passes constructed with velocities {desc['construct_velocities']!r})" if desc.get("construct_velocities") else "")))
    # (5) interpretation: the velocities of the passes are the velocities the ROLLS drive them at (an explicit pass velocity
    #     drives the roll's working velocity).  So the mill set to the roll speeds the calculation resulted in - same
    #     sequence, no pass velocity given, one plain solve - shows the same picture: every pass at its calculated velocity
    #     (up to the rounding of velocity -> rotational frequency -> velocity), equal flux, last pass at the final speed.
    #     The plain solve starts from scratch, so its areas are only as good as the passes' iteration precision.
    if desc.get("mill") and not desc.get("roll_frequency") and not bad:
        m = run_mill(desc, o.freq)
        d_ = "backward" if desc["mode"] == "b" else "forward"
        if m.error is not None:
            ctx.count("mill-raised:" + type(m.error).__name__)
        else:
            ctx.count("mill-resimulated")
            phim = m.v[anchor] * m.A[anchor]
            for i in range(o.n):
                tol = LOOP_TOL + 3 * m.prec[i] * abs(m.v[i])
                if not abs(m.v[i] - phim / m.A[i]) <= tol:
                    bad.append((f"mill-flux-differs-{d_}", f"mill set to the calculated roll speeds {o.freq!r}: pass {i} runs at "
                                f"{m.v[i]!r} through out area {m.A[i]!r}, flux of pass {anchor} is {phim!r}; equal flux needs "
                                f"{phim / m.A[i]!r} (off by {abs(m.v[i] - phim / m.A[i])!r} > {tol!r}); calculated pass velocities {o.v!r}"))
                    break
            if desc["mode"] == "b" and not abs(m.v[-1] - desc["speed"]) <= 1e-9 * abs(desc["speed"]):
                bad.append(("mill-final-speed", f"mill set to the calculated roll speeds {o.freq!r}: last pass runs at {m.v[-1]!r}, "
                            f"prescribed final speed {desc['speed']!r}"))
            for i in range(o.n):
                if not abs(m.v[i] - o.v[i]) <= 1e-9 * abs(o.v[i]):
                    bad.append(("rolls-do-not-realise-pass-velocity", f"pass {i}: calculated velocity {o.v[i]!r}, but its roll at the "
                                f"resulting rotational frequency {o.freq[i]!r} drives the pass at {m.v[i]!r}"))
                    break
    if desc["mode"] == "f":
        # NOT claimed by the property (and not true): the forward calculation keeps v[0] = initial_speed*A_in/usable[0], so the
        # first pass's entry velocity is initial_speed*A_out[0]/usable[0], not the prescribed initial speed (see notes/C19.md)
        off = abs(o.v_in[0] / desc["speed"] - 1)
        ctx.count("forward-entry-speed-off>1%" if off > 1e-2 else "forward-entry-speed-off<=1%")
    spread = (max(x * a for x, a in zip(o.v, o.A)) - min(x * a for x, a in zip(o.v, o.A))) / abs(phi)
    ctx.count("flux-rel-spread<1e-9" if spread < 1e-9 else "flux-rel-spread<1e-4" if spread < 1e-4 else "flux-rel-spread>=1e-4")
    return bad


def _history_text(desc):
    t = ""
    if desc.get("speed_type"):
        t += f" (speed given as {desc['speed_type']})"
    if desc.get("pass_kind"):
        t += f" ({desc['pass_kind']}-roll passes)"
    if desc.get("arrange"):
        a = desc["arrange"]
        t += f" (line re-arranged before the call: {a['kind']} via {a['via']})"
    if desc.get("pre"):
        t += f" (history of the sequence object: {desc['pre']!r})"
    return t


def bits_vec(v):
    return ",".join(str(stub.bits(x)) for x in v) if v else "-"


def units_token(o):
    """the unit list of the sequence at the time of the call as the HARNESS arranged it: `t` for a unit that is no roll pass,
    the usable area for a roll pass"""
    us = iter(o.usable)
    toks = [str(stub.bits(next(us))) if is_pass else "t" for is_pass in o.unit_kinds]
    return ",".join(toks) if toks else "-"


def model_line(desc, o):
    areas = ";".join(bits_vec(a) for a in o.areas) if o.areas and o.n else "-"
    return f"run {desc['mode']} {o.budget} {stub.bits(desc['speed'])} {stub.bits(o.aux)} {units_token(o)} {areas}"


def compare_model(ctx, desc, o, out):
    """model answer vs what the real run did"""
    rp = {"case": desc, "model": out}
    if o.error is not None:
        name = type(o.error).__name__
        if out == name:
            ctx.validated()
        else:
            ctx.disagreement(f"implementation raised {name}: {o.error}; model answered {out[:60]}", rp)
        return
    t = out.split()
    if len(t) != 4 or t[0] != "ok":
        ctx.disagreement(f"model answered {out[:80]!r} where the implementation returned normally", rp)
        return
    iters, conv = int(t[1]), t[2] == "1"
    vs = [[stub.unbits(x) for x in part.split(",")] if part != "-" else [] for part in t[3].split(";")]
    if iters != len(o.written) - 1:
        ctx.disagreement(f"iterations: model {iters}, implementation {len(o.written) - 1} (solve calls - 1)", rp)
        return
    if len(vs) != len(o.written):
        ctx.disagreement("model and implementation wrote a different number of velocity vectors", rp)
        return
    for k, (mv, rv) in enumerate(zip(vs, o.written)):
        if len(mv) != len(rv) or not all(stub.close(a, b_, rtol=1e-12) for a, b_ in zip(mv, rv)):
            ctx.disagreement(f"velocities written before solve call {k}: model {mv}, implementation {rv}", rp)
            return
    real_conv = iters >= 1 and stop_test(o.written[-2], o.written[-1])
    if iters < o.budget and not conv:
        ctx.disagreement("implementation left the loop before the budget was used up, the model says not converged", rp)
        return
    if conv != real_conv:
        ctx.disagreement(f"termination decision: model converged={conv}, |prior-current|<{LOOP_TOL} on the recorded vectors={real_conv}", rp)
        return
    ctx.validated()


# ---------------------------------------------------------------------------------------------------------
# generated hook formulas vs the python functions they came from
# ---------------------------------------------------------------------------------------------------------

def formula_lines(ctx, hooks, n_each):
    import importlib
    from ..translate import pyexpr
    lines, expect = [], []
    rng = ctx.rng
    for name, impl in sorted(hooks.items()):
        modname = "pyroll.core." + impl.module[:-3].replace("/", ".")
        pyfn = getattr(importlib.import_module(modname), impl.fn, None)
        if pyfn is None:
            ctx.tie_breaks.append(f"correspondence: {modname}.{impl.fn} not importable")
            continue
        exprs = [e for (g, e, k) in impl.alts if k == "expr"]
        for k, e in enumerate(exprs):
            vs = sorted(set(pyexpr.expr_vars(e)))
            for _ in range(n_each):
                env = {v: (rng.uniform(-1.2, 1.2) if v.endswith("angle") else math.exp(rng.uniform(-3, 3))) for v in vs}
                real = float(stub.call_impl(pyfn, env))         # presence in env decides has_value / has_set
                lines.append(f"eval {name}_e{k} " + " ".join(f"{a}={stub.bits(x)}" for a, x in env.items()))
                expect.append((f"{name}_e{k}", env, real))
    return lines, expect


# ---------------------------------------------------------------------------------------------------------

def _canon(desc):
    return json.loads(json.dumps(desc, default=float), parse_float=lambda s: round(float(s), 9))


def _slice(desc, start, m):
    """the sub-sequence of passes start .. start+m-1 with everything that is given per pass"""
    d = dict(desc)
    cut = lambda xs: xs[start:start + m]
    d["passes"] = cut(desc["passes"])
    d["transports"] = desc["transports"][:m - 1]
    for k in ("pass_extras", "roll_extras", "construct_velocities", "roll_frequency"):
        if desc.get(k):
            d[k] = cut(desc[k])
    if desc.get("neutral"):
        d["neutral"] = dict(desc["neutral"], values=cut(desc["neutral"]["values"]))
    if desc.get("pre"):
        d["pre"] = [dict(op, values=cut(op["values"])) if op["op"] == "velocities" else op for op in desc["pre"]]
    return d


def shrink(desc, fails):
    """fewer passes while the same key keeps failing"""
    best = desc
    n = len(desc["passes"])
    if desc.get("arrange"):
        return best                          # the re-arrangement refers to positions in this line
    for m in range(2, n):
        for start in range(0, n - m + 1):
            if start and desc["family"] != "box":
                continue                     # later passes are sized for a smaller workpiece
            d = _slice(desc, start, m)
            try:
                if fails(d):
                    return d
            except Exception:
                continue
    return best


class _TooSlow(BaseException):
    """raised by the harness's own watchdog (BaseException: pyroll wraps `Exception`s of sub-units into RuntimeError)"""


CASE_TIME_LIMIT = 30.0     # seconds (quick tier: 12); an ordinary case takes 0.1 - 1.5 s


def _limit(ctx):
    return 12.0 if getattr(ctx, "tier", None) == "quick" else CASE_TIME_LIMIT


class time_limit:
    """Abandon a generated case that takes far too long.  Happens when a generated geometry gives a pass no reduction
    (incoming profile lower than the groove): entry point, roll force, ... are NaN, `Unit.solve` compares NaN results, never
    finds them unchanged and runs its full iteration count in every unit for every iteration of the sequence - minutes per
    velocity calculation.  Nothing is claimed about an abandoned case (it is counted)."""

    def __init__(self, seconds=CASE_TIME_LIMIT):
        self.seconds = seconds
        self.armed = False

    def __enter__(self):
        import signal
        import threading
        if threading.current_thread() is threading.main_thread() and hasattr(signal, "setitimer"):
            def handler(signum, frame):
                raise _TooSlow()
            self.old = signal.signal(signal.SIGALRM, handler)
            signal.setitimer(signal.ITIMER_REAL, self.seconds)
            self.armed = True
        return self

    def __exit__(self, *exc):
        if self.armed:
            import signal
            signal.setitimer(signal.ITIMER_REAL, 0)
            signal.signal(signal.SIGALRM, self.old)
        return False


def run_case(ctx, desc, lines, pending, origin):
    limit = _limit(ctx)
    try:
        with time_limit(limit):
            o = run_real(desc)
    except _TooSlow:
        ctx.count(f"abandoned:case-slower-than-{limit:.0f}s")
        o = Outcome()
        o.error, o.n, o.written = RuntimeError("abandoned by the harness"), -1, []
        return o
    readable = o.error is None and getattr(o, "unreadable", None) is None
    nontrivial = readable and o.n >= 2 and any(abs(a / u - 1) > 1e-6 for a, u in zip(o.A, o.usable))
    ctx.case(_canon(desc), nontrivial=nontrivial)
    ctx.count(f"mode:{desc['mode']}")
    ctx.count(f"passes:{o.n}")
    ctx.count(f"spread:{desc['spread']['kind']}" + (":core" if desc["spread"].get("where") == "core" else ""))
    ctx.count(f"budget:{desc.get('budget')}")
    for op in desc.get("pre") or []:
        ctx.count("history:" + op["op"] + (":" + ("same" if op["mode"] == desc["mode"] else "other") + "-direction" if op["op"] == "calc" else ""))
    if desc.get("reuse_in_profile"):
        ctx.count("history:same-in-profile-object")
    ctx.count("pass-kind:" + desc.get("pass_kind", "two"))
    ctx.count("speed-type:" + desc.get("speed_type", "float"))
    if desc.get("in_extras"):
        ctx.count("in-profile-carries:" + ("upstream-results" if desc["in_extras"].get("via") else
                                           "+".join(sorted(desc["in_extras"]))))
    if desc.get("roll_frequency"):
        ctx.count("rolls-with-rotational-frequency")
    if desc.get("arrange"):
        ctx.count(f"arrange:{desc['arrange']['kind']}:{desc['arrange']['via']}")
    if getattr(o, "tolerated", None):
        ctx.count("history:failed-attempt:" + o.tolerated)
    if desc.get("mill"):
        ctx.count("mill-requested")
    if desc.get("construct_velocities"):
        ctx.count("history:constructed-with-velocities")
    if desc.get("neutral"):
        ctx.count("neutral-plane:" + desc["neutral"]["kind"])
    for k in ("pass_extras", "roll_extras"):
        for nm in sorted({nm for d_ in desc.get(k) or [] for nm in d_}):
            ctx.count(f"{k}:{nm}")
    if o.error is not None:
        ctx.count("raised:" + type(o.error).__name__)
    elif readable:
        ctx.count(f"iterations:{len(o.written) - 1}")
        for (wv, ang), v in zip(o.wv, o.v):
            if not stub.close(wv * math.cos(ang), v, rtol=1e-12):
                ctx.disagreement(f"roll.working_velocity {wv!r} * cos({ang!r}) != explicit pass velocity {v!r}", {"case": desc})
                break
    try:
        with time_limit(limit):
            bad = oracle(ctx, desc, o)       # (may re-simulate the mill / solve a control sequence)
    except _TooSlow:
        ctx.count(f"abandoned:oracle-slower-than-{limit:.0f}s")
        bad = []
    for key, what in bad[:1]:
        def fails(d, key=key):
            try:
                with time_limit(limit):
                    o2 = run_real(d)
                    return any(k2 == key for k2, _ in oracle(_Quiet(), d, o2))
            except _TooSlow:
                return False
        small = shrink(desc, fails)
        ctx.violation(key, what if small is desc else what + " (shrunk to fewer passes)",
                      {"case": small, "how": "driver.props.c19.run_real(case) then oracle; or ./check C19 --replay <this file>"})
    if ctx.model_available and (o.error is None or (o.n == 0 and not o.written)):
        lines.append(model_line(desc, o))
        pending.append((desc, o))
    if origin == "random" and readable and o.n >= 2:
        ctx.sample({"mode": desc["mode"], "speed": desc["speed"], "passes": [p["groove"]["kind"] for p in desc["passes"]],
                    "spread": desc["spread"], "budget": o.budget, "iterations": len(o.written) - 1,
                    "velocities": o.v, "out_areas": o.A}, limit=3)
    return o


class _Quiet:
    def count(self, *a, **k):
        pass


def anchored_hooks(ctx):
    """{lean name: HookImpl} of the anchored hook implementations as the translator reads them from the current source"""
    hooks = getattr(ctx, "c19_hooks", None)
    if hooks is None:
        try:
            idx = c19_velo.hookimpl_index(sorted({rel for (_, rel, _) in c19_velo.HOOKS}))
            hooks = {n: idx[(rel, fn)] for (n, rel, fn) in c19_velo.HOOKS if (rel, fn) in idx}
        except Exception:
            hooks = {}
    return hooks


def root_hook_coverage(ctx):
    """K for `entry_exit_velocity_written_for_every_roll_pass`: the theorem reads the NAMES in the root hook list; here the
    list of the imported package is asked, for every class of roll pass there is (all subclasses of BaseRollPass), whether
    the entry and the exit velocity are among the hooks written in every solve iteration"""
    from pyroll.core import root_hooks, BaseRollPass
    seen, todo = [], [BaseRollPass]
    while todo:
        c = todo.pop()
        if c not in seen:
            seen.append(c)
            todo.extend(c.__subclasses__())
    for c in seen:
        if not c.__module__.startswith("pyroll."):
            continue
        for prof in ("InProfile", "OutProfile"):
            pc = getattr(c, prof)
            ctx.count("root-hook-coverage-checked")
            if any(h.name == "velocity" and issubclass(pc, h.owner) for h in root_hooks):
                ctx.validated()
            else:
                ctx.disagreement(f"{c.__name__}.{prof}.velocity is not among the root hooks: the model takes it to be evaluated and "
                                 f"written in every solve iteration for every kind of roll pass", {"class": c.__name__, "profile": prof})


def run(ctx):
    import logging
    logging.getLogger("pyroll").setLevel(logging.ERROR)
    lines, pending = [], []
    attempted = succeeded = 0
    hooks = anchored_hooks(ctx)
    pool = extras_pool(hooks)
    if ctx.model_available:
        root_hook_coverage(ctx)
    for where in ("pass", "roll"):
        ctx.count(f"hooks-without-implementation:{where}", len(pool[where]))
    for d in corpus(pool):
        o = run_case(ctx, d, lines, pending, "corpus")
        attempted += 1
        succeeded += o.error is None or o.n == 0
    for i in range(ctx.budget(90, 1500)):
        d = gen_desc(ctx.rng, pool=pool)
        o = run_case(ctx, d, lines, pending, "random")
        attempted += 1
        succeeded += o.error is None
    # a few single-pass / no-pass sequences: off the property's quantifier, but the model must agree there too
    for i in range(ctx.budget(3, 20)):
        d = gen_desc(ctx.rng, {"n": 1, "family": "oval-round"})
        if ctx.rng.random() < 0.3:
            d["passes"], d["transports"], d["lead_transport"] = [], [], 1.0
        run_case(ctx, d, lines, pending, "edge")
    if succeeded * 2 < attempted:
        ctx.tie_breaks.append(f"harness: only {succeeded} of {attempted} generated sequences could be solved by the implementation")
    if not ctx.model_available:
        return
    flines, fexpect = formula_lines(ctx, hooks, ctx.budget(10, 200))
    out = ctx.lean_model(MODEL, lines + flines)
    if len(out) != len(lines) + len(flines):
        ctx.disagreement(f"model driver answered {len(out)} lines for {len(lines) + len(flines)} requests", {})
        return
    for (desc, o), ans in zip(pending, out):
        compare_model(ctx, desc, o, ans)
    for (name, env, real), ans in zip(fexpect, out[len(lines):]):
        ctx.count("formula-eval")
        try:
            lean = stub.unbits(ans)
        except Exception:
            ctx.disagreement(f"generated formula {name}: model driver answered {ans!r}", {"formula": name, "env": env})
            continue
        if stub.close(real, lean):
            ctx.validated()
        else:
            ctx.disagreement(f"generated formula {name} evaluates differently from the python function",
                             {"formula": name, "env": env, "python": real, "lean_float": lean})


def translate(ctx):
    ctx.c19_loops, ctx.c19_hooks = c19_velo.emit(ctx)


def replay(ctx, data):
    r = data.get("replay", data)
    desc = r.get("case", r)
    o = run_real(desc)
    if o.error is not None:
        print(f"[C19 replay] the implementation raised {type(o.error).__name__}: {o.error}")
    for key, what in oracle(ctx, desc, o):
        ctx.violation(key, what, {"case": desc})
    if o.error is None and getattr(o, "unreadable", None) is None:
        print(f"[C19 replay] mode={desc['mode']} velocities={o.v} out_areas={o.A} flux={[v * a for v, a in zip(o.v, o.A)]}")
