"""C09 - pass opening: symmetric contours, exact gap, interchangeable gap / height / inscribed-circle diameter.

Tie: T - on every run (a) the hook implementations registered on TwoRollPass.{usable_width,gap,height} and
ThreeRollPass.{usable_width,gap,height,inscribed_circle_diameter} (guards + formulas; `height3`, which measures a clipped
contour line, through driver/translate/c09_contours.py) and (b) the placement programs of `TwoRollPass.contour_lines` /
`ThreeRollPass.contour_lines` (sequences of translate / rotate / reverse with `Expr` arguments) are re-read from the source
into lean/PyrollModel/Gen/C09.lean + Gen/C09Contours.lean; the theorems of lean/PyrollProps/C09.lean are about these
generated terms.  K - the Float run of the generated placement applied to the real groove's contour points is compared
vertex by vertex with the real `roll_pass.contour_lines`; the symbolic hook interpreter (lean/PyrollModel/PassGeom.lean)
is run on exactly the read sequences the real fresh passes are put through (values, AttributeErrors, `__cache__` keys,
resolution order of the real `Hook.functions`), and on the life cycle "constructed bare - looked at - member assigned"
(`lateSession`: answers of the looks, of the reads, cache keys); every closed formula is evaluated against the python function
it came from.  (c) `usable_cross_section` / `usable_cross_section3`: which helper is called and the term handed over for every
parameter of the helper (defaults of the helper resolved), and the helper's clip / turn steps, are re-read as well
(`two_usable_cs`, `two_usable_cs_helper`, ...); K - the value the generated call hands over (read through the interpreter, on
passes with the default, an explicitly given and a plug-in supplied `usable_width`) must make the REAL helper reproduce the real
`usable_cross_section`, and sample points of the opening followed through the generated steps must be kept / discarded as
the real polygon contains them or not.
(d) where the placed vertex list comes from (`Roll.contour_line`, every implementation on `Roll.contour_points`) and the
statements of `refine_cross_section` are re-read into Gen/C09Roll.lean (forms outside the subset become `.opaque` terms on which
the theorems fail).
The independent oracle checks the property text on the real objects - under the default and under non-default configuration
values (`_config`), on rolls carrying explicitly given values (`_random_roll`) - also on passes one of whose quantities (usable_width,
gap, height, inscribed_circle_diameter) reaches the pass on another route of the hook system than the usual one (explicit
value, explicit callable, assignment, implementation registered on a throw-away subclass, ...; see `_make_pass`).
"""
import itertools
import math
import os

from ..translate import gen, pyexpr
from ..translate import c09_contours as cc
from .. import stub
from ..core import LEAN_DIR

ID = "C09"
LEAN_MODULES = ["PyrollProps.C09"]
MODEL = "c09"
MODEL_MODULES = ["PyrollModel.Gen.C09", "PyrollModel.Gen.C09Contours", "PyrollModel.Gen.C09Roll", "PyrollModel.PassGeomDriver"]
RULE = ("every groove class (20 parametric classes from a catalogue of feasible parameter sets, lengths scaled log-uniformly, "
        "radii/depth jittered; SplineGroove with random symmetric polylines) x pad angle matching the roll count (0 deg "
        "two rolls, 30 deg three) x gap log-uniform 1e-4..0.5 of the groove width and exactly 0 x each given member "
        "(gap / height / inscribed-circle diameter) x every read order of all members (and of the other members only) on "
        "fresh unsolved passes x feeding each derived member back into a fresh pass x the second life cycle of a pass object: "
        "constructed without any member, looked at 0-3 times while undetermined (repr / str / contour_lines / members / "
        "usable_width / usable and tip cross-section / tip_width / technological contour / target_width), the given member "
        "assigned afterwards, then a random read order, the contour statements and the usable cross-section x per (case, given "
        "member) one pass a quantity of which comes on another route of the hook system: usable_width given explicitly (equal "
        "to the default, 0.3-1 of it, or - gap > 0 - beyond it as far as the roll faces reach) as constructor value / callable / "
        "assignment / implementation on a throw-away subclass / explicit over such an implementation; the given member as "
        "callable / assignment / implementation on a throw-away subclass; a throw-away subclass without implementations; the "
        "roll an instance of a throw-away Roll subclass or with explicitly given contour points (the groove's, or with the "
        "faces continued along the face line), a barrel width narrower / equal / wider than the contour (value / assignment / "
        "plug-in), max radius / nominal diameter x with probability 0.3 non-default configuration values for the duration of "
        "the case (PROFILE_CONTOUR_REFINEMENT 1..1000, GROOVE_RADIUS_POINT_COUNT 5..60, GROOVE_PADDING, "
        "ROLL_SURFACE_DISCRETIZATION_COUNT), grooves with explicit face padding. non-trivial = "
        "gap > 0 or a derived member given; distinct by (class, rounded parameters, gap, given, order[, looks | route]).")
ASSUMPTIONS = [
    "shapely/GEOS: translate/rotate act vertex-wise with the arithmetic modelled in PassGeom.rotPt (validated vertex by vertex "
    "on every case); clip_by_rect of a line string to an x-window is modelled by its extreme coordinates only (validated through "
    "height3); GEOS' Polygon/clip_by_rect of the usable cross-section is NOT modelled: the theorems follow single points of the "
    "opening through the generated clip / turn steps of the helper (validated on sample points against the real polygon); that "
    "the result is ONE polygon reaching the clip lines and its symmetry are checked by the oracle only (partial)",
    "IEEE rounding: theorems are over the reals; conversions are compared with rtol 1e-9 on floats",
    "the groove contour is an arbitrary vertex list in the theorems; that a real groove's end vertices lie on the face line "
    "through the usable-width point at the pad angle (C03/C10 territory) is a hypothesis, checked on every generated groove",
]

T2 = "roll_pass/hookimpls/two_roll_pass.py"
T3 = "roll_pass/hookimpls/three_roll_pass.py"
SCAN = [T2, T3, "roll_pass/hookimpls/symmetric_roll_pass.py", "roll_pass/hookimpls/base_roll_pass.py",
        "roll_pass/hookimpls/deformation_unit.py", "unit/hookimpls.py"]
MRO = {
    "two": ["TwoRollPass", "SymmetricRollPass", "BaseRollPass", "DiskElementUnit", "DeformationUnit", "Unit"],
    "three": ["ThreeRollPass", "SymmetricRollPass", "BaseRollPass", "DiskElementUnit", "DeformationUnit", "Unit"],
}
HOOKS = {
    "two": ["usable_width", "gap", "height"],
    "three": ["usable_width", "gap", "height", "inscribed_circle_diameter"],
}
MEMBERS = {"two": ["gap", "height"], "three": ["gap", "height", "inscribed_circle_diameter"]}
# names the theorems use
NAMES = {
    (T2, "usable_width"): "two_usable_width", (T2, "gap"): "two_gap", (T2, "height"): "two_height",
    (T3, "usable_width3"): "three_usable_width", (T3, "inscribed_circle_diameter_from_gap"): "three_icd_from_gap",
    (T3, "gap3_from_height"): "three_gap_from_height", (T3, "gap3_from_icd"): "three_gap_from_icd",
    (T3, "height3"): "three_height",
}
USABLE_CS = {"two": (T2, "TwoRollPass"), "three": (T3, "ThreeRollPass")}
CONTOURS = {"two": ("roll_pass/two_roll_pass.py", "TwoRollPass", 2), "three": ("roll_pass/three_roll_pass.py", "ThreeRollPass", 3)}


# --------------------------------------------------------------------------------------------------------------
# (T)
# --------------------------------------------------------------------------------------------------------------
def _scan(ctx=None):
    """{which: [(lean_name, rel, HookImpl)]} in registration (file, source) order, and the clip table"""
    per = {"two": [], "three": []}
    clip_impls = {}      # lean name -> (impl, clips)
    seen_names = set()
    for rel in SCAN:
        path = os.path.join(gen.REPO, "pyroll", "core", rel)
        if not os.path.exists(path):
            if ctx is not None:
                ctx.tie_breaks.append(f"translator: pyroll/core/{rel} does not exist")
            continue
        fns = {}
        for impl in pyexpr.extract_hookimpls(path, module_name=rel):
            for which in ("two", "three"):
                if impl.host in MRO[which] and impl.hook in HOOKS[which]:
                    name = NAMES.get((rel, impl.fn), f"extra_{impl.host}_{impl.fn}")
                    if impl.fn in fns and fns[impl.fn] is not impl and ctx is not None:
                        ctx.tie_breaks.append(f"translator: two hook implementations named {impl.fn} in pyroll/core/{rel}")
                    fns[impl.fn] = impl
                    if impl.gap is not None:
                        # outside pyexpr's subset: try the clip extractor
                        try:
                            impl2, clips = cc.extract_clip_impl(path, impl.fn, rel)
                            impl2.src = impl.src
                            impl = impl2
                            clip_impls[name] = (impl, clips)
                        except pyexpr.Untranslatable as ex:
                            if ctx is not None and name not in seen_names:
                                ctx.tie_breaks.append(f"translator: {impl.fn} (pyroll/core/{rel}) is outside the translatable "
                                                      f"subset: {impl.gap}; {ex}")
                            clip_impls[name] = (impl, [])
                    if impl.wrapper and ctx is not None and name not in seen_names:
                        ctx.tie_breaks.append(f"translator: {impl.fn} (pyroll/core/{rel}) is a wrapper on a member hook; "
                                              "the interpreter models plain implementations only")
                    seen_names.add(name)
                    per[which].append((name, rel, impl))
    return per, clip_impls


def translate(ctx):
    per, clip_impls = _scan(ctx)
    for key, name in NAMES.items():
        if not any(n == name for w in per for (n, _, _) in per[w]):
            ctx.tie_breaks.append(f"translator: hook implementation {key[1]} not found in pyroll/core/{key[0]}")
    # (a) closed formulas through gen.py
    selection, done = [], set()
    for which in ("two", "three"):
        for (name, rel, impl) in per[which]:
            if name not in clip_impls and name not in done:
                selection.append((name, rel, impl.fn))
                done.add(name)
    ctx.found = gen.emit_impl_module(ctx, ID, selection)
    # (b) placements + clip-measuring implementations + class tables
    L = ["import PyrollModel.PassGeom", "import PyrollModel.Gen.C09",
         "/- GENERATED by driver/translate/c09_contours.py from /repo's working tree on every run - do not edit. -/",
         "namespace Gen.C09", "open PassGeom", ""]
    placements = {}
    for which, (rel, cls, n_expected) in CONTOURS.items():
        path = os.path.join(gen.REPO, "pyroll", "core", rel)
        try:
            pl = cc.extract_contour_lines(path, cls)
            if len(pl.lines) != n_expected:
                raise pyexpr.Untranslatable(f"{len(pl.lines)} contour lines instead of {n_expected}")
        except (pyexpr.Untranslatable, OSError) as ex:
            ctx.tie_breaks.append(f"translator: {cls}.contour_lines (pyroll/core/{rel}) is outside the translatable subset: {ex}")
            pl = cc.Placement()
            pl.lines = [("missing", [("translate", ("var", "<untranslatable>"), ("var", "<untranslatable>"))])] * n_expected
        placements[which] = pl
        for i, (pyname, ops) in enumerate(pl.lines):
            L.append(f"/-- pyroll/core/{rel}:{pl.lineno} `{cls}.contour_lines`, geoms[{i}] (python variable `{pyname}`) -/")
            L.append(f"def {which}_roll_line{i} : List GOp :=\n    [" + ",\n     ".join(cc.lean_op(o) for o in ops) + "]")
        L.append(f"def {which}_roll_lines : List (List GOp) := [" +
                 ", ".join(f"{which}_roll_line{i}" for i in range(len(pl.lines))) + "]")
        L.append(f"def {which}_roll_line_names : List String := [" + ", ".join(pyexpr.lean_str(n) for n, _ in pl.lines) + "]")
        L.append("")
    emitted = set()
    all_clips = {"two": [], "three": []}
    clip_vars = {"two": [], "three": []}
    for which in ("two", "three"):
        for (name, rel, impl) in per[which]:
            if name not in clip_impls:
                continue
            impl, clips = clip_impls[name]
            try:
                cv = cc.clip_vars(impl, clips, len(all_clips[which]))
            except pyexpr.Untranslatable as ex:
                ctx.tie_breaks.append(f"translator: {impl.fn}: {ex}")
                cv = []
            all_clips[which] += clips
            clip_vars[which] += cv
            if name in emitted:
                continue
            emitted.add(name)
            L.append(f"/-- pyroll/core/{rel}:{impl.lineno} `{impl.fn}` on `{impl.host}.{impl.hook}` -/")
            if not impl.alts or any(k.startswith("opaque") for (_, _, k) in impl.alts):
                L.append(f"def {name} : Impl := {{ host := {pyexpr.lean_str(impl.host)}, hook := {pyexpr.lean_str(impl.hook)}, "
                         f"fn := {pyexpr.lean_str(impl.fn)}, tier := {impl.tier}, wrapper := false, wantsCycle := false, "
                         f"alts := [(.tt, .opaque \"outside the translatable subset\")] }}")
                L.append(f"def {name}_e : Expr := .var \"<no-formula:{impl.fn}>\"")
            else:
                L.append(f"def {name} : Impl :=\n    {pyexpr.lean_impl(impl)}")
                exprs = [e for (g, e, k) in impl.alts if k == "expr"]
                L.append(f"def {name}_e : Expr := " + (pyexpr.lean_expr(exprs[0]) if exprs else f".var \"<no-formula:{impl.fn}>\""))
            L.append("")
    # (c) the usable cross-section: which helper the hook implementation calls and which term it hands over for every
    # parameter (defaults of the helper resolved), and the helper's clip / turn steps
    cs_calls = {}
    for which, (rel, host) in USABLE_CS.items():
        path = os.path.join(gen.REPO, "pyroll", "core", rel)
        call, helper = cc.HelperCall(), cc.Helper()
        call.host, call.hook, call.fn, call.helper = host, "usable_cross_section", "<untranslatable>", "<untranslatable>"
        helper.fn = "<untranslatable>"
        try:
            call = cc.extract_helper_call(path, host, "usable_cross_section", rel)
            helper = cc.extract_helper(os.path.join(gen.REPO, "pyroll", "core", call.helper_rel), call.helper)
            cc.bind(call, helper)
        except (pyexpr.Untranslatable, OSError, SyntaxError) as ex:
            ctx.tie_breaks.append(f"translator: usable_cross_section of {host} (pyroll/core/{rel}) / its helper is outside the "
                                  f"translatable subset: {ex}")
            call.args = []
        cs_calls[which] = (call, helper)
        L.append(f"/-- pyroll/core/{rel}:{call.lineno} `{call.fn}` on `{host}.usable_cross_section`: the term handed to "
                 f"`{call.helper}` for each of its parameters" +
                 (f" (defaults of the helper used for: {', '.join(call.defaulted)})" if call.defaulted else "") + " -/")
        L.append(f"def {which}_usable_cs : HelperCall :=\n    {cc.lean_call(call)}")
        L.append(f"/-- pyroll/core/{getattr(call, 'helper_rel', '?')}:{helper.lineno} `{helper.fn}`: clip / turn steps on the polygon "
                 f"enclosed by `contour_lines`, loops unrolled -/")
        L.append(f"def {which}_usable_cs_helper : Helper :=\n    {cc.lean_helper(helper)}")
        L.append("")
    for which in ("two", "three"):
        pl = placements[which]
        L.append(f"def {which}_cls : PassClass :=")
        L.append("  { mro := [" + ", ".join(pyexpr.lean_str(h) for h in MRO[which]) + "],")
        L.append("    impls := [" + ", ".join(n for (n, _, _) in per[which]) + "],")
        L.append("    hooks := [" + ", ".join(pyexpr.lean_str(h) for h in HOOKS[which]) + "],")
        L.append("    contourReads := [" + ", ".join(pyexpr.lean_str(h) for h in pl.reads) + "],")
        L.append("    clips := [" + ",\n              ".join(cc.lean_clip(c) for c in all_clips[which]) + "],")
        L.append("    clipVars := [" + ", ".join(f"({pyexpr.lean_str(v)}, {ci}, {k})" for (v, ci, k) in clip_vars[which]) + "] }")
        L.append("")
    L.append("end Gen.C09")
    changed = pyexpr.write_if_changed(os.path.join(LEAN_DIR, "PyrollModel", "Gen", "C09Contours.lean"), "\n".join(L) + "\n")
    ctx.notes.setdefault("generated", {})["Gen/C09Contours.lean"] = {
        "placements": {w: [n for n, _ in placements[w].lines] for w in placements},
        "clip_impls": sorted(clip_impls), "rewritten": changed}
    # (d) where the placed vertex list comes from (`Roll.contour_line`, the implementations on `Roll.contour_points`) and what
    # `refine_cross_section` does to the answer of the cross-section helpers: Gen/C09Roll.lean.  Forms outside the subset are
    # emitted as `.opaque` terms - the theorems about the generated terms then fail to build (and the gap is listed)
    core_dir = os.path.join(gen.REPO, "pyroll", "core")
    try:
        roll_src = cc.extract_roll_source(core_dir)
    except (OSError, SyntaxError, pyexpr.Untranslatable) as ex:
        roll_src = {"contour_line": ("opaque", f"unreadable: {ex}"[:120]), "contour_line_lineno": 0, "impls": []}
    try:
        refine = cc.extract_refine(core_dir)
    except (OSError, SyntaxError) as ex:
        refine = (0, [("opaque", f"unreadable: {ex}"[:120])])
    for what, src in [("Roll.contour_line", roll_src["contour_line"])] + [(f"{fn} on Roll.contour_points", sr) for fn, _, sr in roll_src["impls"]]:
        if src[0] == "opaque":
            ctx.tie_breaks.append(f"translator: {what} (pyroll/core/roll) is outside the translatable subset: {src[1]}")
    if not roll_src["impls"]:
        ctx.tie_breaks.append("translator: no implementation registered on Roll.contour_points (pyroll/core/roll/hookimpls.py)")
    for st in refine[1]:
        if st[0] == "opaque":
            ctx.tie_breaks.append(f"translator: refine_cross_section (pyroll/core/profile/profile.py) has a statement outside the "
                                  f"translatable subset: {st[1]}")
    helper_returns = sorted({(h.fn, getattr(h, "returns_through", "<untranslatable>")) for (_, h) in cs_calls.values()})
    changed = pyexpr.write_if_changed(os.path.join(LEAN_DIR, "PyrollModel", "Gen", "C09Roll.lean"),
                                      cc.lean_roll_module(roll_src, refine, helper_returns))
    ctx.notes.setdefault("generated", {})["Gen/C09Roll.lean"] = {
        "roll_contour_line": roll_src["contour_line"][0], "contour_points_impls": [fn for fn, _, _ in roll_src["impls"]],
        "refine_steps": [st[0] for st in refine[1]], "rewritten": changed}
    ctx.c09 = {"per": per, "clip_impls": clip_impls, "placements": placements, "clips": all_clips, "clip_vars": clip_vars,
               "cs_calls": cs_calls, "roll_src": roll_src}


# --------------------------------------------------------------------------------------------------------------
# generators
# --------------------------------------------------------------------------------------------------------------
# feasible parameter sets of every parametric groove class (taken from the constructors' own documentation/test data; mm)
CATALOGUE = {
    "BoxGroove": dict(depth=52, r1=15, r2=18, usable_width=185.29, ground_width=157.62),
    "CircularOvalGroove": dict(depth=5.05, r1=7, r2=33),
    "ConstrictedBoxGroove": dict(depth=52, r1=15, r2=18, r4=10, usable_width=185.29, ground_width=157.62, indent=10),
    "ConstrictedCircularOvalGroove": dict(depth=17, r1=3, r2=30, r3=5, r4=20, indent=3, usable_width=56.70672071),
    "ConstrictedSwedishOvalGroove": dict(depth=18, r1=5, r2=10, r4=5, usable_width=78, ground_width=60, indent=3),
    "ConstrictedUpsetBoxGroove": dict(depth=30, r1=5, r2=3, usable_width=20, ground_width=9.42038116, indent=0.5, r4=1),
    "DiamondGroove": dict(r1=5, r2=8, usable_width=40, tip_depth=11.54700538),
    "EquivalentRibbedGroove": dict(r1=0.2, r3=3.45, rib_distance=8.4, rib_width=1.6, rib_angle=45, base_body_height=11.78,
                                   nominal_outer_diameter=14, usable_width=13.6788, depth=5.5091),
    "FalseRoundGroove": dict(depth=31.8646, r1=5, r2=38, flank_angle=65),
    "FlatGroove": dict(usable_width=100, r1=20),
    "FlatOvalGroove": dict(depth=20, r1=5, r2=20, usable_width=60),
    "GothicGroove": dict(depth=20, r1=3, r2=40, r3=2, usable_width=40),
    "HexagonalGroove": dict(depth=7.66025404, r1=3, r2=1, usable_width=18.84529946, ground_width=10),
    "Oval3RadiiFlankedGroove": dict(depth=41.1, r1=6, r2=23.5, r3=183, usable_width=74.2506498 * 2, flank_angle=90 - 16.697244),
    "Oval3RadiiGroove": dict(depth=28.5, r1=10, r2=30, r3=170, usable_width=62.30907983 * 2),
    "RoundGroove": dict(depth=15.55, r1=2, r2=15.8),
    "SquareGroove": dict(r1=5, r2=3, usable_width=30, tip_depth=14.74045895),
    "SwedishOvalGroove": dict(depth=20, r1=8, r2=10, usable_width=100, ground_width=40),
    "UpsetBoxGroove": dict(depth=30, r1=5, r2=3, usable_width=20, ground_width=9.42038116),
    "UpsetOvalGroove": dict(depth=23.3303, r1=3, r2=30, r3=5, usable_width=26.2495),
}
ANGLES = {"flank_angle", "tip_angle", "rib_angle", "pad_angle"}
JITTER = {"depth", "r2", "usable_width", "tip_depth", "r1"}
PAD = {"two": 0, "three": 30}

# past failures first (see notes/C09.md): (which, class, kwargs, gap factor of the usable width)
CORPUS = [
    ("three", "FlatGroove", dict(usable_width=100, r1=20), 0.03),
    ("three", "RoundGroove", dict(depth=15.55, r1=2, r2=15.8), 0.05),
    ("three", "ConstrictedBoxGroove", dict(depth=52, r1=15, r2=18, r4=10, usable_width=185.29, ground_width=157.62, indent=10), 0.0),
    ("two", "FlatGroove", dict(usable_width=100, r1=20), 0.0),
    ("two", "UpsetBoxGroove", dict(depth=30, r1=5, r2=3, usable_width=20, ground_width=9.42038116), 0.1),
]


def _build_groove(desc):
    import pyroll.core as pc
    if desc["cls"] == "SplineGroove":
        return pc.SplineGroove(desc["points"], classifiers=("spline",), usable_width=desc.get("usable_width"))
    return getattr(pc, desc["cls"])(**desc["kwargs"])


def _spline_points(rng, which, s):
    """a random polyline that starts and ends on the face level (y = 0) and stays above it in between.
    `SplineGroove` keeps exactly one face vertex at each end, so the faces are the end points: horizontal faces of zero
    length for two rolls and - with usable_width = width - 30-degree faces of zero length for three rolls (the end
    vertices are the usable-width points).  Spline grooves may be asymmetric by design (digitised drawings): most of the
    generated ones are NOT mirror symmetric about z = 0, which is where a flip differs from a half turn."""
    w, d = s * rng.uniform(10, 80), s * rng.uniform(2, 40)
    kind = rng.random()
    if kind < 0.25:
        # mirror-symmetric
        n = rng.randrange(1, 8)
        xs = sorted(rng.uniform(0.02, 0.98) * w / 2 for _ in range(n))
        ys = [d * rng.uniform(0.05, 1) for _ in range(n)]
        y0 = d if rng.random() < 0.7 else d * rng.uniform(0.05, 1)
        half = list(zip(xs, ys))
        inner = [(-x, y) for x, y in reversed(half)] + [(0.0, y0)] + half
        tag = "symmetric"
    else:
        n = rng.randrange(1, 12)
        if kind < 0.45:
            # skewed: the deepest point far off the middle, monotone flanks
            xm = w / 2 * rng.choice([-1, 1]) * rng.uniform(0.3, 0.9)
            xs = sorted([xm] + [rng.uniform(-0.98, 0.98) * w / 2 for _ in range(n - 1)])
            inner = [(x, d * (1 - abs(x - xm) / (w / 2 + abs(xm))) ** rng.uniform(0.5, 2)) for x in xs]
            tag = "skewed"
        else:
            xs = sorted(rng.uniform(-0.98, 0.98) * w / 2 for _ in range(n))
            inner = [(x, d * rng.uniform(0.05, 1)) for x in xs]
            tag = "asymmetric"
        inner = [(x, y) for (x, y), (x2, _) in zip(inner, inner[1:] + [(w, 0)]) if x2 - x > 1e-6 * w]
    pad = w * rng.uniform(0.05, 0.4) if rng.random() < 0.5 else 0.0       # horizontal runs are stripped by SplineGroove
    off = s * rng.uniform(-50, 50) if rng.random() < 0.5 else 0.0          # drawings are not centred
    pts = ([(-w / 2 - pad, 0.0)] if pad else []) + [(-w / 2, 0.0)] + inner + [(w / 2, 0.0)] + ([(w / 2 + pad, 0.0)] if pad else [])
    return [[x + off, y] for x, y in pts], tag, w


def _random_groove(rng, which, ctx):
    """-> (desc, groove) ; desc is JSON-able and sufficient to rebuild the groove"""
    s = 10 ** rng.uniform(-3, 0)
    if rng.random() < (0.22 if which == "two" else 0.12):
        pts, tag, w = _spline_points(rng, which, s)
        desc = {"cls": "SplineGroove", "points": pts, "shape": tag}
        if which == "two" and rng.random() < 0.3:
            # the drawing states a usable width (passed explicitly): equal to the width (a float computed another way) or,
            # for two rolls, smaller (the faces then begin inside the drawn contour; still level 0 at the ends)
            desc["usable_width"] = w if rng.random() < 0.5 else w * rng.uniform(0.6, 0.99)
    else:
        cls = rng.choice(sorted(CATALOGUE))
        kw = dict(CATALOGUE[cls])
        if rng.random() < 0.6:
            k = rng.choice(sorted(set(kw) & JITTER))
            kw[k] = kw[k] * rng.uniform(0.97, 1.03)
        if cls == "FlatGroove" and rng.random() < 0.5:
            kw["r1"] = 0 if rng.random() < 0.5 else kw["r1"] * rng.uniform(0.1, 1)
        kw = {k: (v if k in ANGLES else v * s) for k, v in kw.items()}
        kw["pad_angle"] = PAD[which]
        if rng.random() < 0.2:
            # the length of the faces is a parameter of the groove (default: Config.GROOVE_PADDING of the usable width)
            if rng.random() < 0.7:
                kw["rel_pad"] = rng.uniform(0.02, 0.9)
            else:
                kw["pad"] = kw.get("usable_width", 50 * s) * rng.uniform(0.02, 0.5)
        desc = {"cls": cls, "kwargs": kw}
    try:
        import warnings
        with warnings.catch_warnings():
            warnings.simplefilter("ignore")
            return desc, _build_groove(desc)
    except Exception as ex:          # an infeasible parameter set: not a case
        ctx.count("groove-rejected:" + type(ex).__name__)
        return None


# --------------------------------------------------------------------------------------------------------------
# configuration values the opening geometry reads
# --------------------------------------------------------------------------------------------------------------
# `pyroll.core.Config` values are legitimate inputs: the property is stated for the pass, not for the default configuration.
# A case may run under non-default values (set for the duration of the case - groove construction included, the radii
# discretisation is read there - and restored in `finally`):
#   PROFILE_CONTOUR_REFINEMENT  0 (off) | >= 1: the cross-section helpers ask for more points on the SAME contour
#   GROOVE_RADIUS_POINT_COUNT   how many vertices a radius of a generic elongation groove gets
#   GROOVE_PADDING              relative face padding (read when the groove classes are defined; also given per groove as
#                               `rel_pad` / `pad`, see `_random_groove`)
#   ROLL_SURFACE_DISCRETIZATION_COUNT   the roll surface grid (must not reach the opening at all)
CONFIG_KEYS = ["PROFILE_CONTOUR_REFINEMENT", "GROOVE_RADIUS_POINT_COUNT", "GROOVE_PADDING", "ROLL_SURFACE_DISCRETIZATION_COUNT"]


class _config:
    """context manager: Config values of `cfg` (dict | None) active inside, previous values restored afterwards"""

    def __init__(self, cfg):
        self.cfg = dict(cfg or {})
        self.old = {}

    def __enter__(self):
        if self.cfg:
            from pyroll.core import Config
            for k in self.cfg:
                if k not in CONFIG_KEYS:
                    raise ValueError(f"not a configuration value of the opening geometry: {k}")
            for k, v in self.cfg.items():
                self.old[k] = getattr(Config, k)
            for k, v in self.cfg.items():
                setattr(Config, k, v)
        return self

    def __exit__(self, *exc):
        if self.old:
            from pyroll.core import Config
            for k, v in self.old.items():
                setattr(Config, k, v)
        return False


def _random_config(rng):
    """a JSON-able dict of non-default configuration values (never empty)"""
    cfg = {}
    k = rng.random()
    if k < 0.75:
        f = rng.random()
        cfg["PROFILE_CONTOUR_REFINEMENT"] = 1 if f < 0.2 else (rng.randrange(2, 12) if f < 0.55 else int(round(10 ** rng.uniform(1, 3))))
    if k >= 0.55:
        cfg["GROOVE_RADIUS_POINT_COUNT"] = rng.choice([5, 8, 13, 20, 37, 60])
    if rng.random() < 0.2:
        cfg["GROOVE_PADDING"] = rng.uniform(0.05, 0.6)
    if rng.random() < 0.15:
        cfg["ROLL_SURFACE_DISCRETIZATION_COUNT"] = rng.choice([7, 50, 200])
    return cfg


# --------------------------------------------------------------------------------------------------------------
# explicitly given values on the roll
# --------------------------------------------------------------------------------------------------------------
# The pass reads its contour from the roll (`roll.contour_line` <- `roll.contour_points`); a Roll may carry explicitly given
# values next to its groove: the width of the barrel (narrower than / equal to / wider than the contour of the groove, as
# constructor value, by assignment or from an implementation on a throw-away Roll subclass), radii (nominal radius and a
# larger maximum radius, nominal diameter instead of the radius) and the contour points themselves (the groove's, or the
# groove's contour with the faces continued ALONG THE FACE LINE up to a wider barrel).  The property speaks of the faces of
# neighbouring rolls - wherever they end - and of the opening between them: every clause applies unchanged.
def _roll_name(roll_how):
    return roll_how if isinstance(roll_how, str) else "-".join(str(roll_how.get(k)) for k in ("how", "rel", "via") if roll_how.get(k))


def _random_roll(rng, which, groove):
    """-> roll_how: a string (`plain`, `subclass`, `contour-points-given`) or a JSON-able dict with absolute values"""
    import numpy as np
    k = rng.random()
    if k < 0.42:
        return "plain"
    if k < 0.50:
        return "subclass"
    if k < 0.58:
        return "contour-points-given"
    contour = np.array(groove.contour_points, dtype=float)
    extent = 2 * float(np.abs(contour[:, 0]).max())
    rel = rng.choice(["default", "contour", "narrower", "wider", "wider", "wider"])
    f = {"default": None, "contour": 1.0, "narrower": rng.uniform(0.2, 0.999),
         "wider": rng.choice([1 + 10 ** rng.uniform(-6, -1), rng.uniform(1.05, 4)])}[rel]
    w = float(groove.width) if rel == "default" else extent * f
    if k < 0.80:
        return {"how": "width", "rel": rel, "via": rng.choice(["given", "given", "assigned", "plugin"]), "width": w}
    if k < 0.90:
        return {"how": "contour-points-extended", "rel": "wider", "width": extent * rng.choice([1 + 10 ** rng.uniform(-4, -1), rng.uniform(1.05, 3)])}
    return {"how": "radii", "rel": rng.choice(["max-radius", "nominal-diameter"]), "factor": rng.uniform(1.0, 1.5)}


def _build_roll(which, groove, roll_how):
    import numpy as np
    from pyroll.core import Roll
    R = 10 * float(groove.usable_width)
    if roll_how == "plain":
        return Roll(groove=groove, nominal_radius=R)
    if roll_how == "subclass":
        return type("C09ThrowAwayRoll", (Roll,), {})(groove=groove, nominal_radius=R)
    if roll_how == "contour-points-given":
        return Roll(groove=groove, nominal_radius=R, contour_points=np.array(groove.contour_points, dtype=float))
    how = roll_how["how"]
    if how == "width":
        w, via = roll_how["width"], roll_how.get("via", "given")
        if via == "given":
            return Roll(groove=groove, nominal_radius=R, width=w)
        if via == "assigned":
            roll = Roll(groove=groove, nominal_radius=R)
            roll.width = w
            return roll
        cls = type("C09ThrowAwayRoll", (Roll,), {})
        cls.width(lambda self, _w=w: _w)
        return cls(groove=groove, nominal_radius=R)
    if how == "contour-points-extended":
        # the faces continued along the face line (pad angle of the roll count) up to the barrel edge
        pts = np.array(groove.contour_points, dtype=float)
        t = math.tan(math.radians(PAD[which]))
        z_end = roll_how["width"] / 2
        (z0, y0), (z9, y9) = pts[0], pts[-1]
        ext = np.concatenate([[(-z_end, y0 + (z_end - abs(z0)) * t)], pts, [(z_end, y9 + (z_end - abs(z9)) * t)]])
        return Roll(groove=groove, nominal_radius=R, contour_points=ext, width=roll_how["width"])
    if how == "radii":
        if roll_how["rel"] == "max-radius":
            return Roll(groove=groove, nominal_radius=R, max_radius=R * roll_how["factor"])
        return Roll(groove=groove, nominal_diameter=2 * R)
    raise ValueError(f"unknown roll description {roll_how!r}")


def _fresh(which, groove, **given):
    from pyroll.core import Roll, TwoRollPass, ThreeRollPass
    cls = TwoRollPass if which == "two" else ThreeRollPass
    return cls(roll=Roll(groove=groove, nominal_radius=10 * float(groove.usable_width)), **given)


# --------------------------------------------------------------------------------------------------------------
# run
# --------------------------------------------------------------------------------------------------------------
class _ImplRaised(Exception):
    """the implementation raised something other than the AttributeError of an unavailable hook"""


class _Malformed(Exception):
    """the implementation answered with something the property text cannot be evaluated on (wrong type, wrong shape,
    non-finite number): reported as a violation with the concrete case, never as a harness crash"""


def _in_pyroll(ex):
    import traceback
    return any("/pyroll/" in f.filename for f in traceback.extract_tb(ex.__traceback__))


def _get(rp, name):
    """('ok', value) | ('attr', message) ; any other exception from inside pyroll -> _ImplRaised"""
    try:
        return ("ok", getattr(rp, name))
    except AttributeError as ex:
        if _in_pyroll(ex):
            return ("attr", str(ex)[:120])
        raise
    except Exception as ex:
        if _in_pyroll(ex):
            raise _ImplRaised(f"reading {name}: {type(ex).__name__}: {ex}"[:300]) from ex
        raise


def _read(rp, name):
    """('ok', float) | ('attr', message) | ('bad', description of a value that is not a finite real number)"""
    r = _get(rp, name)
    if r[0] != "ok":
        return r
    v = r[1]
    try:
        import numbers
        import numpy as np
        if isinstance(v, bool) or not (isinstance(v, numbers.Real) or (isinstance(v, np.ndarray) and v.ndim == 0)):
            return ("bad", f"{type(v).__name__} {v!r}"[:120])
        f = float(v)
    except Exception:
        return ("bad", f"{type(v).__name__}"[:120])
    if not math.isfinite(f):
        return ("bad", repr(f))
    return ("ok", f)


def _lines_of(cl, what="contour_lines"):
    """the vertex arrays of a MultiLineString-like answer; _Malformed when it is something else"""
    import numpy as np
    geoms = getattr(cl, "geoms", None)
    if geoms is None:
        raise _Malformed(f"{what} is a {type(cl).__name__}, not a collection of lines")
    out = []
    for g in geoms:
        try:
            a = np.array(g.coords, dtype=float)
        except Exception as ex:
            raise _Malformed(f"{what}: a member of type {type(g).__name__} has no usable coordinates ({type(ex).__name__})")
        if a.ndim != 2 or a.shape[0] < 2 or a.shape[1] < 2:
            raise _Malformed(f"{what}: a line with coordinate array of shape {a.shape}")
        a = a[:, :2]
        if not np.isfinite(a).all():
            raise _Malformed(f"{what}: non-finite coordinates")
        out.append(a)
    if not out:
        raise _Malformed(f"{what} is empty")
    return out


def _orders(which):
    """read orders on a fresh pass: every permutation of all members, and every permutation of any non-empty subset"""
    ms = MEMBERS[which]
    out = []
    for k in range(1, len(ms) + 1):
        for sub in itertools.combinations(ms, k):
            out += [list(p) for p in itertools.permutations(sub)]
    return out


def _rot(pts, deg):
    import numpy as np
    a = math.radians(deg)
    c, s = math.cos(a), math.sin(a)
    return np.column_stack([c * pts[:, 0] - s * pts[:, 1], s * pts[:, 0] + c * pts[:, 1]])


def _same_vertex_set(a, b, tol):
    """the two vertex arrays describe the same point set (order free, multiplicity free), within tol"""
    import numpy as np
    if len(a) == 0 or len(b) == 0:
        return len(a) == len(b)
    d = np.abs(a[:, None, :] - b[None, :, :]).max(axis=2)
    return bool((d.min(axis=1) <= tol).all() and (d.min(axis=0) <= tol).all())


def _line_dist(p, a, b):
    """distance of point p from the infinite line through a, b"""
    ux, uy = b[0] - a[0], b[1] - a[1]
    n = math.hypot(ux, uy)
    return abs((p[0] - a[0]) * uy - (p[1] - a[1]) * ux) / n


def _oracle_geometry(ctx, which, groove, gap, rp, replay, kp="", cl=None):
    """the contour statements of the property, measured on the real `contour_lines`; `kp` prefixes the violation keys
    (which life cycle of the pass object the statement failed in)"""
    import numpy as np
    if cl is None:
        cl = rp.contour_lines
    lines = [np.array(g.coords) for g in cl.geoms]
    scale = max(float(np.abs(np.concatenate(lines)).max()), 1e-300)
    tol = 1e-11 * scale
    if which == "two":
        if len(lines) != 2:
            ctx.violation(kp + "two-roll-line-count", f"{len(lines)} contour lines", replay)
            return lines
        up, lo = lines
        if not (_same_vertex_set(-up, lo, tol) and _same_vertex_set(-lo, up, tol)):
            ctx.violation(kp + "two-roll-half-turn", "upper and lower contour are not images of each other under a half turn", replay)
        # faces: the end segments of each line; their end points are `gap` apart (vertically: faces are horizontal at 0 deg)
        seps = [e[1] - f[1] for e in (up[0], up[-1]) for f in (lo[0], lo[-1])]
        if any(abs(sp - gap) > tol for sp in seps):
            ctx.violation(kp + "two-roll-face-separation", f"face end points are {seps} apart, gap={gap}", replay)
        if type(groove).__name__ != "SplineGroove" and \
                any(abs(ln[0][1] - ln[1][1]) > tol or abs(ln[-1][1] - ln[-2][1]) > tol for ln in (up, lo)):
            ctx.violation(kp + "two-roll-face-not-level", "a face segment of a 0-degree groove is not horizontal", replay)
        if min(abs(up[0][0] + lo[0][0]), abs(up[0][0] + lo[-1][0])) > tol:
            ctx.violation(kp + "two-roll-face-offset", "the faces of the two rolls do not end above each other", replay)
    else:
        if len(lines) != 3:
            ctx.violation(kp + "three-roll-line-count", f"{len(lines)} contour lines", replay)
            return lines
        for i in range(3):
            img = _rot(lines[i], 120)
            if not any(_same_vertex_set(img, lines[j], tol) for j in range(3) if j != i):
                ctx.violation(kp + "three-roll-120", f"contour {i} turned by 120 degrees is none of the other contours", replay)
                break
        for i in range(3):
            j = (i + 1) % 3
            ends = [(e, f) for e in (0, -1) for f in (0, -1)]
            d = [math.hypot(*(lines[i][e] - lines[j][f])) for e, f in ends]
            k = int(np.argmin(d))
            if abs(d[k] - gap) > tol:
                ctx.violation(kp + "three-roll-neighbour-gap", f"neighbouring face end points of contours {i},{j} are {d[k]} apart, "
                              f"gap={gap}", replay)
                break
            e, f = ends[k]
            a, b = lines[i][e], lines[i][1 if e == 0 else -2]          # face segment of contour i
            c, dd = lines[j][f], lines[j][1 if f == 0 else -2]          # face segment of contour j
            # a spline groove has faces of zero length (see _spline_points): its end segments are flank segments and
            # have no prescribed direction - only the end-point distance above applies (as in the two-roll branch)
            if type(groove).__name__ != "SplineGroove" and (
                    abs(_line_dist(c, a, b) - gap) > tol or abs(_line_dist(dd, a, b) - gap) > tol or
                    abs(_line_dist(a, c, dd) - gap) > tol):
                ctx.violation(kp + "three-roll-face-separation", f"faces of contours {i},{j} are not parallel at distance gap={gap}",
                              replay)
                break
    # separated by EXACTLY the gap everywhere along the faces, wherever they end: no point of a roll contour (vertex or not,
    # face extension included) comes closer to the neighbouring roll than the gap, and the faces do come that close
    from shapely.geometry import LineString
    try:
        ls = [LineString(ln) for ln in lines]
        pairs = [(0, 1)] if which == "two" else [(0, 1), (1, 2), (2, 0)]
        for i, j in pairs:
            dmin = float(ls[i].distance(ls[j]))
            if not abs(dmin - gap) <= tol:
                ctx.violation(kp + f"{which}-roll-closest-approach", f"contours {i},{j} come as close as {dmin} to each other, "
                              f"gap={gap}", replay)
                break
    except ImportError:
        raise
    except Exception as ex:          # GEOS cannot measure it (degenerate line): counted, no verdict
        ctx.count("closest-approach-not-evaluable:" + type(ex).__name__)
    return lines


def _oracle_usable_cs(ctx, which, rp, uw_pass, replay, kp="", height=None, hdisc=0.0):
    """usable cross-section: spans exactly the usable width, reaches the height of the pass, has the symmetry of the pass"""
    import numpy as np
    from shapely import make_valid
    from shapely.affinity import rotate
    from shapely.errors import GEOSException
    try:
        ucs = rp.usable_cross_section
    except Exception as ex:
        if _in_pyroll(ex):
            ctx.violation(kp + f"{which}-usable-cs-raises" + ("-zero-gap" if replay.get("gap") == 0 else ""),
                          f"usable_cross_section raised {type(ex).__name__}: {ex}"[:200], replay)
            return
        raise
    if ucs.geom_type == "Polygon" and ucs.is_empty and replay.get("gap") == 0:
        # a CLOSED opening (flat barrels touching all along: the region between the contours has no area) has no cross-section
        # to speak of: pyroll answers a zero-area ring under the default configuration and - GEOS' segmentize of such a ring -
        # an empty polygon with PROFILE_CONTOUR_REFINEMENT >= 1.  Counted, no verdict (see notes/C09.md, observations)
        try:
            from shapely import Polygon as _Polygon
            ls0 = _lines_of(rp.contour_lines)
            whole = _Polygon(np.concatenate(ls0))
            sc0 = max(float(np.abs(np.concatenate(ls0)).max()), 1e-300)
            if whole.area <= 1e-18 * sc0 * sc0:
                ctx.count("usable-cs-empty-on-closed-opening")
                return
        except Exception as ex:
            if not (isinstance(ex, _Malformed) or _in_pyroll(ex)):
                raise
    if ucs.geom_type != "Polygon" or ucs.is_empty:
        ctx.violation(kp + f"{which}-usable-cs-not-a-polygon", f"usable_cross_section is a {ucs.geom_type} "
                      f"(empty={ucs.is_empty}) instead of one polygon", replay)
        return
    v = np.array(ucs.exterior.coords)
    scale = max(float(np.abs(v).max()), 1e-300)
    tol = 1e-9 * scale
    if which == "two":
        if abs(v[:, 0].max() - uw_pass / 2) > tol or abs(v[:, 0].min() + uw_pass / 2) > tol:
            ctx.violation(kp + "usable-cs-span", f"usable cross-section spans [{v[:, 0].min()}, {v[:, 0].max()}], usable width {uw_pass}",
                          replay)
        turn = 180
    else:
        # the three-roll usable width is measured towards the three gaps (directions 90, 210, 330 degrees)
        for ang in (90, 210, 330):
            dx, dy = math.cos(math.radians(ang)), math.sin(math.radians(ang))
            ext = float((v[:, 0] * dx + v[:, 1] * dy).max())
            if abs(ext - uw_pass / 2) > tol:
                ctx.violation(kp + "usable-cs-span", f"usable cross-section reaches {ext} towards the gap at {ang} degrees, "
                              f"usable width/2 = {uw_pass / 2}", replay)
                break
        turn = 120
    # ... and it is the opening between the rolls within the usable width: towards every groove bottom it reaches as far as
    # the roll contour does there (every contour vertex strictly inside the usable-width cuts is a point of its boundary),
    # and no further than half the height of the pass
    try:
        lines = _lines_of(rp.contour_lines)
    except Exception as ex:
        if not (isinstance(ex, _Malformed) or _in_pyroll(ex)):
            raise
        lines = None
    if lines is not None and math.isfinite(uw_pass):
        gdirs = [(math.cos(math.radians(g)), math.sin(math.radians(g))) for g in ((0, 180) if which == "two" else (90, 210, 330))]
        allv = np.concatenate(lines)
        inside = np.ones(len(allv), dtype=bool)
        for dx, dy in gdirs:
            inside &= (allv[:, 0] * dx + allv[:, 1] * dy) <= uw_pass / 2 - 1e-7 * scale
        for b in ((90, 270) if which == "two" else (30, 150, 270)):
            dx, dy = math.cos(math.radians(b)), math.sin(math.radians(b))
            ext = float((v[:, 0] * dx + v[:, 1] * dy).max())
            if inside.any():
                want = float((allv[inside, 0] * dx + allv[inside, 1] * dy).max())
                if ext < want - tol:
                    ctx.violation(kp + "usable-cs-height", f"towards the groove bottom at {b} degrees the usable cross-section "
                                  f"reaches {ext}, the roll contour within the usable width reaches {want}", replay)
                    break
            if height is not None and ext > height / 2 + tol + hdisc:
                ctx.violation(kp + "usable-cs-height", f"towards the groove bottom at {b} degrees the usable cross-section "
                              f"reaches {ext}, beyond half the height {height} of the pass", replay)
                break
    a = ucs.area
    if a > 0:
        try:
            sd = ucs.symmetric_difference(rotate(ucs, turn, origin=(0, 0))).area
        except GEOSException:
            # GEOS cannot overlay a self-touching / self-crossing ring: judge the symmetry on the repaired polygon; if even
            # that fails the symmetry statement cannot be evaluated on this answer (counted, no verdict)
            try:
                fixed = make_valid(ucs)
                sd = fixed.symmetric_difference(rotate(fixed, turn, origin=(0, 0))).area
            except GEOSException:
                ctx.count("usable-cs-symmetry-not-evaluable")
                return
        # refine_cross_section re-samples the boundary: symmetric up to the sampling, not to rounding
        if sd > 1e-6 * a:
            ctx.violation(kp + "usable-cs-symmetry", f"usable cross-section differs from its image under the {turn} degree turn by "
                          f"area {sd} of {a}", replay)


# other quantities of the opening that share helpers / memoised geometry with the usable cross-section
PRE_READS = ["tip_cross_section", "tip_width", "contour_lines", "height", "usable_width"]


# life cycle "dimensioned late": what a user, a notebook or a logger asks of a pass object that was constructed WITHOUT
# gap / height / inscribed-circle diameter (a stand taken from a roll catalogue while a sequence is being set up), before one
# of them is assigned.  What these looks answer is not C09's subject (the opening is not determined yet: failing is as
# legitimate as answering) - but once a member IS given, the opening must be the one belonging to it.
LOOKS = {
    "two": ["repr", "str", "contour_lines", "gap", "height", "usable_width", "usable_cross_section", "tip_width",
            "tip_cross_section", "technologically_orientated_contour_lines", "target_width"],
    "three": ["repr", "str", "contour_lines", "gap", "height", "inscribed_circle_diameter", "usable_width",
              "usable_cross_section", "tip_width", "tip_cross_section", "technologically_orientated_contour_lines",
              "target_width"],
}
LATE = "dimensioned-late"


def _model_looks(which):
    """the looks the Lean interpreter knows (`Probe`): the hooks of the class tables and the property `contour_lines`"""
    return [x for x in LOOKS[which] if x in HOOKS[which] or x == "contour_lines"]


def _look(rp, what):
    """one look at a pass whose opening is undetermined; whatever pyroll answers or raises is accepted"""
    try:
        if what == "repr":
            repr(rp)
        elif what == "str":
            str(rp)
        else:
            getattr(rp, what)
    except Exception as ex:
        if not _in_pyroll(ex):
            raise


def _random_looks(rng, which):
    if rng.random() < 0.12:
        return []               # dimensioned by assignment instead of by constructor argument, not looked at before
    return [rng.choice(LOOKS[which]) for _ in range(rng.randrange(1, 4))]


def _late_case(ctx, which, groove, gap, vals, uw_pass, tolv, replay0, given, looks, order, do_cs):
    """the property statements on a pass that was constructed bare, looked at, and given `given` by assignment afterwards:
    giving any one member determines the others, the faces are separated by exactly the gap, the height is the extent of
    the opening, the usable cross-section spans the usable width - whatever was asked of the object before"""
    import numpy as np
    kp = "late-"
    rp = _fresh(which, groove)
    for what in looks:
        _look(rp, what)
    setattr(rp, given, vals[given])
    replay = dict(replay0, life_cycle=LATE, looked_at=list(looks), given=given, value=vals[given], order=list(order))
    ctx.count("late:" + (looks[0] if looks else "not-looked-at"))
    ctx.case([which, replay0["groove"]["cls"], round(gap / float(groove.usable_width), 9), LATE, looks, given, order])
    try:
        for name in order:
            r = _read(rp, name)
            if r[0] != "ok":
                ctx.violation(f"{kp}{which}-read-{name}-given-{given}-fails",
                              f"pass looked at ({looks}) before {given} was assigned: reading {name} (order {order}) "
                              f"answered {r[1]}", replay)
            elif name in vals and abs(r[1] - vals[name]) > tolv:
                ctx.violation(f"{kp}{which}-{given}-to-{name}",
                              f"pass looked at ({looks}) before {given} = {vals[given]} was assigned answers {name} = {r[1]}; "
                              f"a pass constructed with that {given} answers {vals[name]}", replay)
        r = _get(rp, "contour_lines")
        if r[0] != "ok":
            ctx.violation(f"{kp}{which}-contour-lines-unavailable",
                          f"pass looked at ({looks}) before {given} was assigned: contour_lines raised {r[1]}", replay)
            return
        lines = _oracle_geometry(ctx, which, groove, gap, rp, replay, kp=kp, cl=r[1])
        # the height is the extent of the opening (same measurement and tolerance as on the reference pass)
        contour = np.array(groove.contour_points, dtype=float)
        uw, depth = float(groove.usable_width), float(groove.depth)
        disc = float("inf")
        if which == "two" and len(lines) == 2:
            disc = 2 * abs(depth - float(contour[:, 1].max()))
            ext = float(lines[0][:, 1].max() - lines[1][:, 1].min())
            if abs(ext - vals["height"]) > tolv + disc:
                ctx.violation(kp + "two-roll-height-extent", f"height {vals['height']} but the contours are {ext} apart at the "
                              f"bottoms", replay)
        elif which == "three" and len(lines) == 3:
            inside = contour[np.abs(contour[:, 0]) <= uw / 2]
            disc = 2 * abs(depth - (float(inside[:, 1].max()) if len(inside) else float("nan")))
            sel = lines[1][np.abs(lines[1][:, 0]) <= uw / 2]
            bottom = -float(sel[:, 1].min()) if len(sel) else float("nan")
            if not abs(2 * bottom - vals["height"]) <= tolv + disc:
                ctx.violation(kp + "three-roll-height-extent", f"height {vals['height']} but the lower groove bottom is at "
                              f"-{bottom}", replay)
        if do_cs and gap > 0:
            _oracle_usable_cs(ctx, which, rp, uw_pass, dict(replay, read="usable_cross_section"), kp=kp, height=vals["height"],
                              hdisc=tolv + disc)
    except _ImplRaised as ex:
        ctx.violation(f"{kp}{which}-hook-raises", f"pass looked at ({looks}) before {given} was assigned: {ex}"[:300], replay)


def _late_k(ctx, which, groove, vals, tolv, replay0, given, looks, order, lean_lines, lean_expect):
    """K for the same life cycle: real object vs `lateSession` of the interpreter (answers of the looks, of the reads, cache)"""
    rp = _fresh(which, groove)
    seen = []
    try:
        for what in looks:
            r = _get(rp, what) if what == "contour_lines" else _read(rp, what)
            seen.append((what, (r[0], None) if (what == "contour_lines" and r[0] == "ok") else r))
        setattr(rp, given, vals[given])
        got = [(name, _read(rp, name)) for name in order]
    except _ImplRaised:
        ctx.count("late-k-skipped:implementation-raised")      # the oracle (_late_case) reports it with the concrete input
        return
    cache = [k for k in rp.__cache__ if k in HOOKS[which]]
    lean_lines.append(f"late {which} {','.join(looks) or '-'} {given} {','.join(order)}")
    lean_expect.append(("late", (seen, got, cache, tolv),
                        dict(replay0, life_cycle=LATE, looked_at=list(looks), given=given, value=vals[given], order=list(order))))


# --------------------------------------------------------------------------------------------------------------
# routes on which a quantity of the opening reaches the pass
# --------------------------------------------------------------------------------------------------------------
# The quantities the opening geometry reads (usable_width, gap, height, inscribed_circle_diameter) are hooks: a value usually
# comes from the registered default implementation (usable_width) or from a constructor argument (the given member), but the
# hook system offers other routes, and a plug-in uses them.  The property speaks of THE usable width / gap / height of the
# pass, whichever route it came on:
#   explicit              constructor keyword argument (for usable_width: a value that need not be the groove's)
#   explicit-callable     constructor keyword argument that is a function of the pass (Hook.__get__ calls it)
#   assigned              setattr on the fresh pass, before anything is read
#   plugin                an implementation registered on a throw-away subclass of the pass class (what a plug-in package does
#                         with its own pass type); nothing is registered on pyroll's own classes
#   explicit-over-plugin  both: the explicit value is the value of the pass
#   subclass              a throw-away subclass without any implementation of its own (hook None)
# and the roll (`roll.groove`, `roll.contour_line`) may be an instance of a throw-away Roll subclass or carry its
# contour points as an explicitly given value (equal to the groove's).
ROUTES_UW = ["explicit", "explicit", "explicit-callable", "assigned", "plugin", "plugin", "explicit-over-plugin"]
ROUTES_MEMBER = ["explicit-callable", "assigned", "plugin", "plugin"]


def _make_pass(which, groove, route, roll_how="plain", **given):
    """a fresh pass; `route` = None | {"hook": name | None, "how": one of the routes above, "value": float}"""
    import numpy as np
    from pyroll.core import Roll, TwoRollPass, ThreeRollPass
    base = TwoRollPass if which == "two" else ThreeRollPass
    roll = _build_roll(which, groove, roll_how)
    how = route["how"] if route else "explicit"
    hook = route["hook"] if route else None
    cls = base
    kw = dict(given)
    if how in ("plugin", "explicit-over-plugin", "subclass"):
        cls = type("C09ThrowAwayPass", (base,), {})
    if how == "plugin":
        v = route["value"]
        getattr(cls, hook)(lambda self, _v=v: _v)
        kw.pop(hook, None)
    elif how == "explicit-over-plugin":
        v = route["value"]
        getattr(cls, hook)(lambda self, _v=v: 0.5 * _v)       # what the plug-in would answer; the explicit value overrides it
        kw[hook] = v
    elif how == "explicit":
        if hook is not None:
            kw[hook] = route["value"]
    elif how == "explicit-callable":
        v = route["value"]
        kw[hook] = (lambda self, _v=v: _v)
    elif how == "assigned":
        kw.pop(hook, None)
    rp = cls(roll=roll, **kw)
    if how == "assigned":
        setattr(rp, hook, route["value"])
    return rp


def _random_route(rng, which, given, gap, uw_pass, lines, groove):
    """-> (route, roll_how); the value of a member route is filled in by the caller"""
    import numpy as np
    roll_how = _random_roll(rng, which, groove)
    k = rng.random()
    if k < 0.12 or not math.isfinite(uw_pass):
        return {"hook": None, "how": "subclass", "value": None}, roll_how
    if k < 0.40:
        return {"hook": given, "how": rng.choice(ROUTES_MEMBER), "value": None}, roll_how
    # a usable width that is not the default one.  Which widths can the usable cross-section span at all?  The opening between
    # the rolls reaches as far as the roll faces do: two rolls |z| <= the end of the contour, three rolls up to the outer end
    # of the faces towards the gap - and for gap 0 no further than the default usable width (the faces touch there).
    f = rng.random()
    if f < 0.25:
        w = uw_pass                                   # the same value, given explicitly
    elif f < 0.8 or gap <= 0:
        w = uw_pass * rng.uniform(0.3, 1.0)
    else:
        if which == "two":
            wmax = 2 * min(float(np.abs(ln[:, 0]).max()) for ln in lines)
        else:
            wmax = 2 * max(float(ln[:, 1].max()) for ln in lines)
        w = uw_pass + max(0.0, 0.9 * (wmax - uw_pass)) * rng.uniform(0, 1)
    return {"hook": "usable_width", "how": rng.choice(ROUTES_UW), "value": w}, roll_how


def _route_case(ctx, which, groove, gap, vals, uw_pass, tolv, replay0, given, route, roll_how, order, do_cs,
                lean_lines=None, lean_expect=None, cs_call=None):
    """the property statements on a pass one of whose quantities came on another route than the usual one.  Violation keys
    are prefixed `<how>-<hook>-` (`subclass-` when nothing is overridden)."""
    import numpy as np
    how, hook = route["how"], route["hook"]
    kp = f"{how}-{hook}-" if hook else f"{how}-"
    members = MEMBERS[which]
    if hook in members:
        route = dict(route, value=vals[given])
    replay = dict(replay0, provenance=dict(route, roll=roll_how), given=given, value=vals[given], order=list(order))
    ctx.count(f"route:{how}:{hook or '-'}")
    ctx.count("route-roll:" + _roll_name(roll_how))
    ctx.case([which, replay0["groove"]["cls"], round(gap / float(groove.usable_width), 9), "route", how, hook,
              None if route["value"] is None else round(route["value"] / float(groove.usable_width), 9), _roll_name(roll_how),
              None if isinstance(roll_how, str) or "width" not in roll_how else round(roll_how["width"] / float(groove.usable_width), 9),
              given, order])
    depth = float(groove.depth)
    contour = np.array(groove.contour_points, dtype=float)
    try:
        # the consistent opening this pass belongs to: same routes, the gap given -> its members (a usable width that is not
        # the default one is part of the description of the pass; what the derived members are is read from such a pass)
        if hook == "usable_width":
            refp = _make_pass(which, groove, route, roll_how, gap=gap)
            ref_vals = {"gap": gap}
            for m in members[1:]:
                r = _read(refp, m)
                if r[0] != "ok":
                    ctx.violation(f"{kp}{which}-read-{m}-given-gap-fails", f"usable_width = {route['value']} ({how}): {m} "
                                  f"unavailable with gap given: {r[1]}", dict(replay, given="gap", value=gap, order=[m]))
                    return
                ref_vals[m] = r[1]
        else:
            ref_vals = vals
        rp = _make_pass(which, groove, route, roll_how, **{given: ref_vals[given]})
        if how == "plugin" and hook in members:
            # a member supplied by an implementation counts as given once the pass has answered it (the conversions test
            # has_set_or_cached): it is read first
            order = [hook] + [m for m in order if m != hook]
            replay["order"] = list(order)
        got = []
        for name in order:
            r = _read(rp, name)
            got.append((name, r))
            if r[0] != "ok":
                ctx.violation(f"{kp}{which}-read-{name}-given-{given}-fails",
                              f"pass with {hook or 'nothing'} supplied {how}: reading {name} (order {order}) answered {r[1]}",
                              replay)
            elif name in ref_vals and abs(r[1] - ref_vals[name]) > tolv:
                ctx.violation(f"{kp}{which}-feedback-{given}-to-{name}",
                              f"pass with {hook or 'nothing'} supplied {how}, {given} = {ref_vals[given]}: {name} = {r[1]}, "
                              f"the pass with gap = {gap} answers {ref_vals[name]}", replay)
        cache = [k for k in rp.__cache__ if k in HOOKS[which]]
        # K: the interpreter on the generated tables against this pass - `usable_width` in `__dict__` (explicit routes) and/or
        # the class of a plug-in (one more implementation on a most-derived class): values, AttributeErrors, cache keys
        in_dict = ([] if (how == "plugin" and hook == given) else [given]) + \
                  (["usable_width"] if hook == "usable_width" and how != "plugin" else [])
        mcls = which + (f"+{hook}" if how in ("plugin", "explicit-over-plugin") else "")
        env0 = [(given, ref_vals[given])] if given in in_dict else []
        env0 += [("roll.groove.usable_width", float(groove.usable_width)), ("roll.groove.depth", depth)]
        if "usable_width" in in_dict:
            env0.append(("usable_width", route["value"]))
        if how in ("plugin", "explicit-over-plugin"):
            env0.append((f"plugin.{hook}", route["value"] if how == "plugin" else 0.5 * route["value"]))
        modelled = lean_lines is not None and (hook == "usable_width" or (how == "plugin" and hook in members))
        if modelled:
            if all(r[0] in ("ok", "attr") for _, r in got):
                lean_lines.append("env " + " ".join(f"{k}={stub.bits(v)}" for k, v in env0))
                lean_expect.append(("env", None, replay))
                lean_lines.append(f"interp {mcls} {','.join(in_dict) or '-'} {','.join(order)}")
                lean_expect.append(("interp", (got, cache, tolv), replay))
        # THE usable width of the pass: what the pass answers - which is the supplied value when one was supplied
        r = _read(rp, "usable_width")
        if r[0] != "ok":
            ctx.violation(f"{kp}{which}-read-usable_width-fails", f"usable_width unavailable: {r[1]}", replay)
            return
        uw_own = r[1]
        if hook == "usable_width" and abs(uw_own - route["value"]) > 1e-12 * abs(route["value"]):
            ctx.count("route-usable-width-read-differs-from-supplied")     # the hook system's business (C01), not C09's
        r = _get(rp, "contour_lines")
        if r[0] != "ok":
            ctx.violation(f"{kp}{which}-contour-lines-unavailable", f"contour_lines raised {r[1]}", replay)
            return
        lines = _oracle_geometry(ctx, which, groove, gap, rp, replay, kp=kp, cl=r[1])
        uw = float(groove.usable_width)
        if which == "two" and len(lines) == 2:
            if abs(ref_vals["height"] - (gap + 2 * depth)) > tolv:
                ctx.violation(kp + "two-roll-height", f"height {ref_vals['height']} != gap + 2*depth = {gap + 2 * depth}", replay)
            disc = 2 * abs(depth - float(contour[:, 1].max()))
            ext = float(lines[0][:, 1].max() - lines[1][:, 1].min())
            if abs(ext - ref_vals["height"]) > tolv + disc:
                ctx.violation(kp + "two-roll-height-extent", f"height {ref_vals['height']} but the contours are {ext} apart at "
                              f"the bottoms", replay)
        elif which == "three" and len(lines) == 3:
            inside = contour[np.abs(contour[:, 0]) <= uw / 2]
            disc = 2 * abs(depth - (float(inside[:, 1].max()) if len(inside) else float("nan")))
            sel = lines[1][np.abs(lines[1][:, 0]) <= uw / 2]
            bottom = -float(sel[:, 1].min()) if len(sel) else float("nan")
            if not abs(2 * bottom - ref_vals["height"]) <= tolv + disc:
                ctx.violation(kp + "three-roll-height-extent", f"height {ref_vals['height']} but the lower groove bottom is at "
                              f"-{bottom}", replay)
        if do_cs and (gap > 0 or which == "two"):
            # the usable cross-section spans exactly the usable width OF THE PASS (uw_own), on whichever route it came
            dflt = hook != "usable_width" and len(lines) == (2 if which == "two" else 3)
            _oracle_usable_cs(ctx, which, rp, uw_own, dict(replay, read="usable_cross_section"), kp=kp,
                              height=ref_vals["height"] if dflt else None, hdisc=(tolv + disc) if dflt else 0.0)
            if lean_lines is not None and cs_call is not None and gap > 0 and (modelled or hook is None or hook in members):
                _cs_k(ctx, which, rp, uw_own, mcls, in_dict, env0, cs_call, replay, lean_lines, lean_expect)
    except _ImplRaised as ex:
        ctx.violation(f"{kp}{which}-hook-raises", f"pass with {hook or 'nothing'} supplied {how}: {ex}"[:300], replay)


def _cs_k(ctx, which, rp, uw_own, mcls, in_dict, env0, cs_call, replay, lean_lines, lean_expect):
    """K for the usable cross-section: (1) `handed`: the value the generated call hands to the helper on this pass (read
    through the interpreter) must be the value with which the REAL helper reproduces the real `usable_cross_section`;
    (2) `keep`: points of the opening followed through the generated steps of the helper must be kept / discarded as the real
    polygon contains them or not"""
    import importlib
    import numpy as np
    from shapely import Polygon, Point
    call, helper = cs_call
    if not call.args or not helper.ops:
        return
    try:
        ucs = rp.usable_cross_section
        lines = [np.array(g.coords) for g in rp.contour_lines.geoms]
    except Exception as ex:
        if _in_pyroll(ex):
            return                  # reported by the oracle
        raise
    if ucs.geom_type != "Polygon" or ucs.is_empty:
        return
    mod = importlib.import_module("pyroll.core." + call.helper_rel[:-3].replace("/", "."))
    fn = getattr(mod, call.helper, None)
    if fn is None:
        ctx.tie_breaks.append(f"correspondence: helper {call.helper} not importable")
        return
    if in_dict:
        # (a member supplied by a plug-in implementation is only available to the conversions once it has been read: the
        # model's `handed` starts from a fresh pass, the real pass has answered the member before - not compared)
        lean_lines.append("env " + " ".join(f"{k}={stub.bits(v)}" for k, v in env0))
        lean_expect.append(("env", None, replay))
        lean_lines.append(f"handed {mcls} {','.join(in_dict)}")
        lean_expect.append(("handed", (rp, fn, helper.fn, ucs), replay))
    # sample points of the opening: random ones, and points straddling the usable width towards the gaps (two rolls: +-z,
    # three rolls: 90 / 210 / 330 degrees)
    whole = Polygon(np.concatenate(lines))
    if not whole.is_valid or whole.is_empty:
        return
    x0, y0, x1, y1 = whole.bounds
    scale = max(abs(x0), abs(y0), abs(x1), abs(y1))
    tolb = 1e-7 * scale
    rng = ctx.rng
    cand = [(rng.uniform(x0, x1), rng.uniform(y0, y1)) for _ in range(10)]
    for ang in ((0, 180) if which == "two" else (90, 210, 330)):
        for f in (0.97, 1.03):
            a = math.radians(ang + rng.uniform(-3, 3))
            cand.append((f * uw_own / 2 * math.cos(a) / math.cos(math.radians(3)), f * uw_own / 2 * math.sin(a) / math.cos(math.radians(3))))
    pts = []
    for (x, y) in cand:
        pt = Point(x, y)
        if whole.contains(pt) and whole.boundary.distance(pt) > tolb and ucs.boundary.distance(pt) > tolb:
            pts.append((x, y))
    if not pts:
        return
    env1 = [(k, v) for k, v in env0 if k != "usable_width"] + [("usable_width", uw_own)]
    if not any(k == "gap" for k, _ in env1):
        env1.append(("gap", float(rp.gap)))
    lean_lines.append("env " + " ".join(f"{k}={stub.bits(v)}" for k, v in env1))
    lean_expect.append(("env", None, replay))
    lean_lines.append(f"keep {which} " + " ".join(f"{stub.bits(x)} {stub.bits(y)}" for x, y in pts))
    lean_expect.append(("keep", (pts, ucs, tolb), replay))


def _model_chain(per_which, hook, mro):
    out = []
    for t in (0, 1, 2):
        for k in mro:
            out += [i.fn for (_, _, i) in reversed(per_which) if i.hook == hook and i.host == k and i.tier == t and not i.wrapper]
    return out


def _one_case(ctx, which, desc, groove, gap, lean_lines, lean_expect, do_cs=True, full_k=True, pre=None, late=None,
              prov=None, cfg=None, rolls=()):
    """`cfg`: the non-default configuration values active for this case (the CALLER holds them active through `_config`; they
    are recorded in every replay); `rolls`: roll descriptions put through the route case with nothing else overridden"""
    import numpy as np
    cs_calls = (getattr(ctx, "c09", None) or {}).get("cs_calls")
    cs_call = cs_calls[which] if cs_calls else None
    model_k = getattr(ctx, "model_available", True) and cs_call is not None
    members = MEMBERS[which]
    uw, depth = float(groove.usable_width), float(groove.depth)
    replay0 = {"pass": which, "groove": desc, "gap": gap}
    if cfg:
        replay0["config"] = dict(cfg)
        for k in cfg:
            ctx.count("config:" + k)
    contour = np.array(groove.contour_points, dtype=float)
    scale = float(np.abs(contour).max())
    ctx.count(f"{which}:{desc['cls']}")
    ctx.count("gap:zero" if gap == 0 else "gap:positive")
    # assumptions of the theorems, monitored (not part of the property): end vertices on the face line at the pad angle
    t = math.tan(math.radians(PAD[which]))
    z0, y0 = contour[-1]
    if abs(y0 - (z0 - uw / 2) * t) > 1e-9 * scale or abs(contour[0][1] - y0) > 1e-9 * scale or \
            abs(contour[0][0] + z0) > 1e-9 * scale:
        ctx.count("assumption-failed:face-end-not-on-pad-line")
    inside = contour[np.abs(contour[:, 0]) <= uw / 2]
    dmax = float(inside[:, 1].max()) if len(inside) else float("nan")
    if dmax > depth * (1 + 1e-9) + 1e-12 * scale:
        ctx.count("assumption-note:contour-above-depth-within-usable-width")
    # ---- reference pass: gap given ------------------------------------------------------------------------------
    ref = _fresh(which, groove, gap=gap)
    lines = _oracle_geometry(ctx, which, groove, gap, ref, dict(replay0, read="contour_lines"))
    vals = {"gap": gap}
    for m in members[1:]:
        r = _read(ref, m)
        if r[0] != "ok":
            ctx.violation(f"{which}-read-{m}-given-gap-fails", f"{m} unavailable with gap given: {r[1]}", dict(replay0, given="gap"))
            return
        vals[m] = r[1]
    r = _read(ref, "usable_width")
    uw_pass = r[1] if r[0] == "ok" else float("nan")
    tolv = 1e-9 * max(scale, abs(vals["height"]))
    # height is the extent of the opening: twice the distance from the centre to the groove bottom (measured on the polyline,
    # so the groove's own discretisation of its deepest point enters: tolerance 2*(depth - deepest sampled vertex))
    disc = 2 * abs(depth - float(contour[:, 1].max())) if which == "two" else 2 * abs(depth - dmax)
    if which == "two":
        if abs(vals["height"] - (gap + 2 * depth)) > tolv:
            ctx.violation("two-roll-height", f"height {vals['height']} != gap + 2*depth = {gap + 2 * depth}", replay0)
        ext = float(lines[0][:, 1].max() - lines[1][:, 1].min())
        if abs(ext - vals["height"]) > tolv + disc:
            ctx.violation("two-roll-height-extent", f"height {vals['height']} but the contours are {ext} apart at the bottoms", replay0)
    else:
        bottom = -float(min(ln[np.abs(ln[:, 0]) <= uw / 2][:, 1].min() for ln in lines[1:2]))
        if abs(2 * bottom - vals["height"]) > tolv + disc:
            ctx.violation("three-roll-height-extent", f"height {vals['height']} but the lower groove bottom is at -{bottom}", replay0)
        icd = 2 * ((uw / 2 + gap) / math.sqrt(3) + depth)       # inscribed circle touches the groove bottoms
        if abs(vals["inscribed_circle_diameter"] - icd) > tolv:
            ctx.violation("three-roll-icd", f"inscribed circle diameter {vals['inscribed_circle_diameter']} != {icd}", replay0)
    if do_cs:
        _oracle_usable_cs(ctx, which, ref, uw_pass, dict(replay0, read="usable_cross_section"), height=vals["height"],
                          hdisc=tolv + disc)
        # the same statement on a pass on which OTHER quantities of the opening were read first (the usable cross-section
        # spans exactly the usable width whatever was asked before: a clip remembered for another width must not answer)
        if gap > 0:
            pre = pre or ctx.rng.sample(PRE_READS, ctx.rng.randrange(1, len(PRE_READS) + 1))
            rp2 = _fresh(which, groove, gap=gap)
            for name in pre:
                try:
                    _get(rp2, name)
                except _ImplRaised:
                    pass        # what these reads themselves answer is not C09's subject
            ctx.count("usable-cs-after:" + pre[0])
            _oracle_usable_cs(ctx, which, rp2, uw_pass, dict(replay0, read="usable_cross_section", read_before=pre),
                              height=vals["height"], hdisc=tolv + disc)

    # ---- K: placement vertex by vertex ---------------------------------------------------------------------------
    envline = "env " + " ".join(f"{k}={stub.bits(v)}" for k, v in
                                [("gap", gap), ("roll.groove.usable_width", uw), ("roll.groove.depth", depth)])
    lean_lines.append("contour " + " ".join(f"{stub.bits(x)} {stub.bits(y)}" for x, y in contour))
    lean_expect.append(("contour", len(contour), replay0))
    lean_lines.append(envline)
    lean_expect.append(("env", None, replay0))
    lean_lines.append(f"place {which}")
    lean_expect.append(("place", lines, dict(replay0, scale=scale)))

    # ---- each choice of the given member, every read order on fresh passes ------------------------------------------
    for given in members:
        gval = vals[given]
        env = "env " + " ".join(f"{k}={stub.bits(v)}" for k, v in
                                [(given, gval), ("roll.groove.usable_width", uw), ("roll.groove.depth", depth)])
        lean_lines.append(env)
        lean_expect.append(("env", None, replay0))
        all_orders = _orders(which) + [members + ["usable_width"], ["usable_width"] + members]
        # the control part does not depend on the groove: every order goes through the model for the first cases, later
        # cases send a sample (the oracle below still runs every order on the real pass)
        k_orders = all_orders if full_k else ctx.rng.sample(all_orders, 2)
        for order in all_orders:
            rp = _fresh(which, groove, **{given: gval})
            got = []
            replay = dict(replay0, given=given, value=gval, order=order)
            ctx.case([which, desc["cls"], round(math.log10(scale), 3), round(gap / uw, 9), given, order],
                     nontrivial=(gap > 0 or given != "gap"))
            ctx.count("given:" + given)
            for name in order:
                try:
                    r = _read(rp, name)
                except _ImplRaised as ex:
                    # giving any one member determines the others: an exception other than the AttributeError of an
                    # unavailable hook is reported with the concrete pass and read order
                    ctx.violation(f"{which}-read-{name}-given-{given}-raises",
                                  f"fresh pass with only {given} = {gval} given (order {order}): {ex}"[:300], replay)
                    got.append((name, ("raised", str(ex)[:120])))
                    continue
                got.append((name, r))
                if r[0] != "ok":
                    ctx.violation(f"{which}-read-{name}-given-{given}-fails",
                                  f"fresh pass with only {given} given: reading {name} (order {order}) raised AttributeError",
                                  replay)
                elif name in vals and abs(r[1] - vals[name]) > tolv:
                    ctx.violation(f"{which}-feedback-{given}-to-{name}",
                                  f"{name} = {vals[name]} derived {given} = {gval}; a fresh pass given that {given} answers "
                                  f"{name} = {r[1]}", replay)
            if order in k_orders and not any(r[0] == "raised" for _, r in got):
                cache = [k for k in rp.__cache__ if k in HOOKS[which]]
                lean_lines.append(f"interp {which} {given} {','.join(order)}")
                lean_expect.append(("interp", (got, cache, tolv), replay))
        # the same member given in the other life cycle of a pass object: constructed bare, looked at, dimensioned afterwards
        forced = late is not None and late.get("given") == given
        looks = list(late["looked_at"]) if forced else _random_looks(ctx.rng, which)
        order = list(late["order"]) if forced else ctx.rng.choice(all_orders)
        _late_case(ctx, which, groove, gap, vals, uw_pass, tolv, replay0, given, looks, order, do_cs)
        ml = _model_looks(which)
        k_late = [([x for x in looks if x in ml], order)]
        if full_k:
            k_late += [([x], members + ["usable_width"]) for x in ml] + [(ml, members), (ml[::-1] + ml, ["usable_width"] + members)]
        for (kl, ko) in k_late:
            _late_k(ctx, which, groove, vals, tolv, replay0, given, kl, ko, lean_lines, lean_expect)
        # the same member given to a pass one of whose quantities comes on another route than the usual one
        forced = prov is not None and prov.get("given") == given
        if forced:
            route = {k: prov["provenance"].get(k) for k in ("hook", "how", "value")}
            roll_how, order = prov["provenance"].get("roll", "plain"), list(prov["order"])
        else:
            route, roll_how = _random_route(ctx.rng, which, given, gap, uw_pass, lines, groove)
            order = ctx.rng.choice(all_orders)
        k_cs = model_k and (full_k or ctx.rng.random() < 0.35)
        _route_case(ctx, which, groove, gap, vals, uw_pass, tolv, replay0, given, route, roll_how, order, do_cs,
                    lean_lines if k_cs else None, lean_expect, cs_call)
    # explicitly given values on the roll, nothing else overridden (the past-failure corpus goes through a fixed list)
    for roll_how in rolls:
        for given in (members if full_k else [ctx.rng.choice(members)]):
            _route_case(ctx, which, groove, gap, vals, uw_pass, tolv, replay0, given, {"hook": None, "how": "subclass", "value": None},
                        roll_how, list(members), do_cs, None, lean_expect, cs_call)
    if len(ctx.samples) < 3:
        ctx.sample({"pass": which, "groove": desc, "gap": gap, "derived": vals})


def _check_lean(ctx, lean_lines, lean_expect):
    import numpy as np
    out = ctx.lean_model(MODEL, lean_lines)
    if len(out) != len(lean_lines):
        ctx.disagreement(f"model driver answered {len(out)} lines for {len(lean_lines)}", {})
        return
    for (kind, exp, replay), o, line in zip(lean_expect, out, lean_lines):
        if kind == "contour":
            if o != f"ok {exp}":
                ctx.disagreement(f"model driver: {o!r} on a contour line", replay)
        elif kind == "env":
            if o != "ok":
                ctx.disagreement(f"model driver: {o!r} on an env line", replay)
        elif kind == "place":
            try:
                got = [np.array([stub.unbits(t) for t in part.split()]).reshape(-1, 2) for part in o.split("|")]
            except Exception:
                ctx.disagreement(f"model driver: unparsable placement {o[:80]!r}", replay)
                continue
            tol = 1e-13 * replay["scale"]
            if len(got) != len(exp) or any(g.shape != e.shape for g, e in zip(got, exp)):
                ctx.disagreement("generated placement: number of lines / vertices differs from roll_pass.contour_lines", replay)
            elif any(np.abs(g - e).max() > tol for g, e in zip(got, exp)):
                worst = max(float(np.abs(g - e).max()) for g, e in zip(got, exp))
                ctx.disagreement(f"generated placement differs from roll_pass.contour_lines by {worst} (vertex by vertex)", replay)
            else:
                ctx.validated()
                ctx.count("placement-vertices-compared", sum(len(e) for e in exp))
        elif kind == "handed":
            rp, fn, helper_fn, ucs = exp
            try:
                kw = {}
                for part in o.split():
                    k, v = part.split("=")
                    if not k.startswith(helper_fn + ":") or v.startswith("!"):
                        raise ValueError(part)
                    kw[k[len(helper_fn) + 1:]] = stub.unbits(v)
            except Exception:
                ctx.disagreement(f"usable cross-section: the model hands over {o[:80]!r} ({line})", replay)
                continue
            try:
                with _config(replay.get("config")):
                    again = fn(rp, **kw)
            except Exception as ex:
                ctx.disagreement(f"usable cross-section: the real helper {helper_fn} raised {type(ex).__name__} on what the model "
                                 f"hands over ({kw})", replay)
                continue
            a, b = np.array(ucs.exterior.coords), np.array(again.exterior.coords) if again.geom_type == "Polygon" else None
            if b is None or a.shape != b.shape or np.abs(a - b).max() > 1e-12 * max(float(np.abs(a).max()), 1e-300):
                ctx.disagreement(f"usable cross-section: the real implementation does not answer what the real helper {helper_fn} "
                                 f"gives for the values the generated call hands over ({kw}; {line})", replay)
            else:
                ctx.validated()
        elif kind == "keep":
            from shapely import Point
            pts, ucs, tolb = exp
            toks = o.split()
            if len(toks) != len(pts):
                ctx.disagreement(f"model driver: {o[:80]!r} on a keep line", replay)
                continue
            bad = None
            for (x, y), t in zip(pts, toks):
                inside = ucs.contains(Point(x, y))
                if t == "-":
                    if inside:
                        bad = f"the model discards ({x}, {y}), the real usable cross-section contains it"
                else:
                    try:
                        qx, qy = [stub.unbits(v) for v in t.split(",")]
                    except Exception:
                        bad = f"unparsable {t[:40]!r}"
                        break
                    if ucs.distance(Point(qx, qy)) > tolb:
                        bad = f"the model keeps ({x}, {y}) at ({qx}, {qy}), which is not in the real usable cross-section"
                    elif not inside and math.hypot(qx - x, qy - y) <= tolb:
                        bad = f"the model keeps ({x}, {y}), the real usable cross-section does not contain it"
            if bad:
                ctx.disagreement(f"usable cross-section, generated helper steps vs real polygon: {bad}", replay)
            else:
                ctx.validated()
                ctx.count("usable-cs-points-compared", len(pts))
        elif kind == "late":
            seen, got, cache, tolv = exp
            try:
                l_part, r_part, c_part = [x.strip() for x in o.split("#")]
                mlooks = [] if l_part == "-" else [tuple(x.split("=")) for x in l_part.split()]
                reads = [tuple(x.split("=")) for x in r_part.split()]
                mcache = [] if c_part == "cache=-" else c_part[len("cache="):].split(",")
            except Exception:
                ctx.disagreement(f"model driver: unparsable late answer {o[:80]!r}", replay)
                continue
            ok = len(mlooks) == len(seen) and len(reads) == len(got) and mcache == cache
            why = "" if ok else f"looks/reads/cache differ: model cache {mcache}, real {cache}"
            for (n, r), (mn, mv) in list(zip(seen, mlooks)) + list(zip(got, reads)):
                if n != mn:
                    ok, why = False, "names differ"
                elif r[0] == "attr":
                    if mv != "!AttributeError":
                        ok, why = False, f"{n}: real AttributeError, model {mv}"
                elif r[0] != "ok":
                    ok, why = False, f"{n}: real {r[1]}"
                elif r[1] is None:
                    if mv != "ok":
                        ok, why = False, f"{n}: real answers, model {mv}"
                elif mv.startswith("!") or mv == "ok":
                    ok, why = False, f"{n}: real {r[1]}, model {mv}"
                elif not abs(stub.unbits(mv) - r[1]) <= tolv * 1e-2:
                    ok, why = False, f"{n}: real {r[1]}, model {stub.unbits(mv)}"
            if ok:
                ctx.validated()
            else:
                ctx.disagreement(f"hook interpreter (life cycle dimensioned late) vs real pass ({line}): {why}", replay)
        elif kind == "interp":
            got, cache, tolv = exp
            try:
                head, c_part, _ = [x.strip() for x in o.split("#")]
                reads = [tuple(x.split("=")) for x in head.split()]
                mcache = [] if c_part == "cache=-" else c_part[len("cache="):].split(",")
            except Exception:
                ctx.disagreement(f"model driver: unparsable interp answer {o[:80]!r}", replay)
                continue
            ok = len(reads) == len(got) and mcache == cache
            why = "" if ok else f"reads/cache differ: model cache {mcache}, real {cache}"
            for (n, r), (mn, mv) in zip(got, reads):
                if n != mn:
                    ok, why = False, "names differ"
                elif r[0] == "attr":
                    if mv != "!AttributeError":
                        ok, why = False, f"{n}: real AttributeError, model {mv}"
                elif mv.startswith("!"):
                    ok, why = False, f"{n}: real {r[1]}, model {mv}"
                elif not abs(stub.unbits(mv) - r[1]) <= tolv * 1e-2:
                    ok, why = False, f"{n}: real {r[1]}, model {stub.unbits(mv)}"
            if ok:
                ctx.validated()
            else:
                ctx.disagreement(f"hook interpreter on the generated tables vs real fresh pass ({line}): {why}", replay)


def _check_order(ctx, per):
    """the resolution order assumed by the interpreter (`chainFor`) against the real `Hook.functions`"""
    from pyroll.core import TwoRollPass, ThreeRollPass
    for which, cls in (("two", TwoRollPass), ("three", ThreeRollPass)):
        real_mro = [k.__name__ for k in cls.__mro__]
        if [k for k in real_mro if k in MRO[which]] != MRO[which]:
            ctx.disagreement(f"MRO of {cls.__name__} is {real_mro}, the tables assume {MRO[which]}", {})
        for hook in HOOKS[which]:
            real = [f.name for f in getattr(cls, hook).functions]
            model = _model_chain(per[which], hook, MRO[which])
            if real != model:
                ctx.disagreement(f"resolution order of {cls.__name__}.{hook}: real {real}, tables {model}", {"hook": hook})
            else:
                ctx.validated()


CORPUS_CONFIGS = [
    {"PROFILE_CONTOUR_REFINEMENT": 1},
    {"PROFILE_CONTOUR_REFINEMENT": 7, "GROOVE_RADIUS_POINT_COUNT": 8},
    {"PROFILE_CONTOUR_REFINEMENT": 300},
    {"PROFILE_CONTOUR_REFINEMENT": 2, "GROOVE_RADIUS_POINT_COUNT": 37, "GROOVE_PADDING": 0.4, "ROLL_SURFACE_DISCRETIZATION_COUNT": 7},
    {"PROFILE_CONTOUR_REFINEMENT": 50, "GROOVE_RADIUS_POINT_COUNT": 60},
]


def _corpus_rolls(which, groove):
    """the roll descriptions every corpus entry goes through: barrel width equal to the default / to the contour / narrower /
    wider (slightly and much) on every way of giving it, wider contour points, radii"""
    import numpy as np
    extent = 2 * float(np.abs(np.array(groove.contour_points, dtype=float)[:, 0]).max())
    out = [{"how": "width", "rel": "default", "via": "given", "width": float(groove.width)},
           {"how": "width", "rel": "contour", "via": "given", "width": extent},
           {"how": "width", "rel": "narrower", "via": "given", "width": 0.5 * extent},
           {"how": "width", "rel": "wider", "via": "given", "width": extent * (1 + 1e-3)},
           {"how": "width", "rel": "wider", "via": "given", "width": extent * 1.25},
           {"how": "width", "rel": "wider", "via": "assigned", "width": extent * 3},
           {"how": "width", "rel": "wider", "via": "plugin", "width": extent * 1.25},
           {"how": "contour-points-extended", "rel": "wider", "width": extent * 1.25},
           {"how": "radii", "rel": "max-radius", "factor": 1.2},
           {"how": "radii", "rel": "nominal-diameter", "factor": 1.0}]
    return out


def _sampler(rng, var):
    return math.exp(rng.uniform(-6, 1))


def run(ctx):
    import warnings
    warnings.filterwarnings("ignore")
    from . import common  # noqa: F401  (silences the pyroll logger)
    rng = ctx.rng
    info = getattr(ctx, "c09", None)
    if info is None:                      # extended search re-enters run() without translate()
        per, clip_impls = _scan(None)
    else:
        per, clip_impls = info["per"], info["clip_impls"]
    model = getattr(ctx, "model_available", True)
    if model:
        _check_order(ctx, per)
        found = {n: i for w in per for (n, _, i) in per[w] if n not in clip_impls and not n.startswith("extra_")}
        stub.formula_correspondence(ctx, MODEL, found, _sampler, n_each=ctx.budget(6, 100))
    lean_lines, lean_expect = [], []
    n_cases = ctx.budget(150, 5000)
    done = 0
    try:
        for ci, (which, cls, kw, gf) in enumerate(CORPUS):
            kw = dict(kw, pad_angle=PAD[which])
            desc = {"cls": cls, "kwargs": kw}
            g = _build_groove(desc)
            _one_case(ctx, which, desc, g, gf * float(g.usable_width), lean_lines, lean_expect, rolls=_corpus_rolls(which, g))
            # the same past failure under non-default configuration values (one fixed set per entry)
            cfg = CORPUS_CONFIGS[ci % len(CORPUS_CONFIGS)]
            with _config(cfg):
                g = _build_groove(desc)
                _one_case(ctx, which, desc, g, gf * float(g.usable_width), lean_lines, lean_expect, full_k=False, cfg=cfg)
        while done < n_cases:
            which = "two" if rng.random() < 0.45 else "three"
            cfg = _random_config(rng) if rng.random() < 0.3 else None
            with _config(cfg):
                r = _random_groove(rng, which, ctx)
                if r is None:
                    continue
                desc, g = r
                uw = float(g.usable_width)
                gap = 0.0 if rng.random() < 0.15 else uw * 10 ** rng.uniform(-4, math.log10(0.5))
                rolls = [_random_roll(rng, which, g)] if rng.random() < 0.25 else ()
                _one_case(ctx, which, desc, g, gap, lean_lines, lean_expect, full_k=done < 8, cfg=cfg, rolls=rolls)
            done += 1
    except _ImplRaised as ex:
        ctx.violation("pass-hook-raises", str(ex)[:300], {"note": "raised while reading members of a fresh pass"})
    if model and lean_lines:
        _check_lean(ctx, lean_lines, lean_expect)


def replay(ctx, data):
    r = data.get("replay", data)
    if "groove" not in r:
        return
    cfg = r.get("config") or None
    with _config(cfg):
        g = _build_groove(r["groove"])
        lines, expect = [], []
        late = {k: r[k] for k in ("given", "looked_at", "order")} if r.get("life_cycle") == LATE else None
        prov = {k: r[k] for k in ("given", "provenance", "order")} if r.get("provenance") and r.get("order") else None
        _one_case(ctx, r["pass"], r["groove"], g, r["gap"], lines, expect, pre=r.get("read_before"), late=late, prov=prov, cfg=cfg)
