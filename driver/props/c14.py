"""C14 - the workpiece is turned exactly once between consecutive roll passes; rotator geometry.

Tie: T + K.
  T  driver/translate/c14_rot.py re-reads, on every run, the rule table of rotator/hookimpls.py, the `rotation` hook
     functions of roll_pass/hookimpls/base_roll_pass.py (incl. the backward walk of `detect_already_rotated`),
     `rotator_factory` of roll_pass/base.py, `Rotator.next_roll_pass`, the hand-over of `Unit.init_solve` and the default of
     the global switch, and writes them as data to lean/PyrollModel/Gen/C14.lean.  lean/PyrollModel/Rot.lean interprets
     that data; the theorems of lean/PyrollProps/C14.lean are re-checked against it.
  K  the Lean driver (Float) and the real objects are run on the same flat sequences (real PassSequence holding real
     Transport / CoolingPipe / Rotator / Unit objects and roll passes) and compared unit by unit: value of
     `roll_pass.rotation`, auto-rotator created or not and its angle, total turn of the in profile relative to the previous
     pass' out profile, classifiers; the rule table on every classifier combination; the rotated coordinate ring.

     The same holds for HISTORIES (one sequence solved, edited with insert/remove/item assignment, settings and the global switch
     changed, solved again; the model threads the cached `rotation` values of the pass objects from solve to solve) and for pass
     classes that carry further pre-processor factories around `rotator_factory`.

     The arrangement is all the property talks about ("within one pass sequence"): every stream therefore also puts the sequence
     together in other ways than by the constructor (list operations, units taken over from another sequence, a deep copy,
     sub-sequences dissolved with PassSequence.flatten()) and gives transports / plain units / roll passes an inner structure of
     their own (disk elements, parts).  The object graph behind it - parents, member lists, `Unit.prev`, `_SubUnitsList`,
     `flatten` - is translated too (PyrollModel/RotNav.lean interprets it) and compared with the real objects (stream (n)).

The oracle is written from the property text (see `Oracle`): it counts the rotators that act between two passes
(spy on `Rotator.solve`), measures the turn between pass k's out and pass k+1's in cross-section vertex by vertex
(a scalene marker polygon, so no symmetry can hide a turn), checks every acting rotator (out ring = in ring turned
by the stated angle, equal area and perimeter, classifiers = incoming + marks, incoming set untouched) and checks that the
stated angle is the explicit one or the one the *name* of the applicable rule promises.
"""
import math
import struct
import traceback

from ..translate import c14_rot
from ..core import LEAN_DIR, REPO, InfraError

ID = "C14"
LEAN_MODULES = ["PyrollProps.C14"]
MODEL = "c14"
MODEL_MODULES = ["PyrollModel.RotDriver"]
RULE = ("(a) every translated rule function x every subset pair of the classifier vocabulary, python evaluation of the "
        "translated guard vs the real function; (b) every subset pair of the vocabulary (+ foreign classifiers) on a real "
        "auto-rotator vs model vs the name-derived rule spec; (c) ALL words of length <= 5 over {pass, transport, rotator, "
        "other} as real flat sequences, both values of the switch, all passes unset, plus the same words with settings drawn "
        "from {unset, True, False, 0, 45, 90, 33.3, ...}; (d) random words of length <= 8 with random pass kinds (stub passes "
        "with arbitrary classifiers, real two-/three-roll passes with real grooves), CoolingPipe, rule-based and explicit "
        "rotators; (e) real PassSequence.solve runs; (f) stand-alone passes; (g) random rings through a real Rotator vs the "
        "model's rotation; (p) every pattern of further pre-processor factories (new profile / same profile / None; before / after "
        "rotator_factory in yield order) on throw-away pass subclasses x settings x both switch values; (h) histories on marker flows: "
        "a random sequence is solved, then 1-4 times edited (rotators/transports/other units/passes inserted, removed, replaced, "
        "swapped; a pass' rotation set or deleted; the switch toggled) and solved again with 1-3 outer iterations, objects keep their "
        "identity and caches; (i) the same with real passes and the real PassSequence.solve (default and small max_iteration_count). "
        "In (c)-(e), (p), (h), (i) the sequence is also put together by other routes than the constructor (append / prepend / extend / += / "
        "insert / slice assignment / units of another sequence / deepcopy / random splits into (empty, doubly) nested sub-sequences "
        "dissolved with flatten(); in histories also seq.append/prepend/drop/pop and a part of the live sequence wrapped into a "
        "sub-sequence and flattened again, or a new sequence object made of the same units), and transports, cooling pipes, plain units "
        "and roll passes are given disk elements / parts of their own; every word of (c) is run a third time that way; (n) random object "
        "graphs: the nested sequence before flatten(), after each flatten(), and after the units were solved (disk elements exist) are "
        "written out (parents, member lists) and flatten / the walk function called directly on every pass are compared with the model's "
        "navigation. "
        "A case is one sequence + switch value (or one history); non-trivial = it has two passes with something or nothing "
        "between them (or, for (b)/(g), selects a non-default rule / a non-zero angle; for histories: a re-solve with two passes); "
        "distinct by the canonical token list.")
ASSUMPTIONS = [
    "hook resolution (explicit value first, then the cached value, then functions, latest registration first, first non-None wins; "
    "reevaluate_cache() in every iteration of a unit's solution loop recomputes the cached values from the functions) is modelled "
    "by hand in Rot.lean (it is the subject of C01/C02), validated here by the differential runs incl. the histories",
    "further pre-processors of a pass class are modelled as geometry-neutral (they hand on section and classifiers unchanged) or as "
    "returning None; a pre-processor that itself turns or relabels the workpiece is outside the property",
    "shapely.affinity.rotate acts vertex-wise with the matrix [[cos,-sin],[sin,cos]] of angle*pi/180 (its snapping of |cos|,|sin| < 2.5e-16 "
    "to 0 is a rounding artefact, not modelled; coordinates are compared with tolerance 1e-12 relative)",
    "geometry theorems are over the reals; floats are compared with the stated tolerances",
    "the deformation inside a roll pass is irrelevant to the property: in the driven streams the pass is entered with the real "
    "init_solve (rotation hook, rotator_factory, auto-rotator) and its out profile is a marker polygon supplied by the harness; "
    "stream (e) runs the real PassSequence.solve end to end",
    "the object graph (PyrollModel/RotNav.lean): `list.index`/`list.__getitem__` of the member list, weak parent references that are "
    "alive, `PassSequence.units` = copy of the member list; of `_SubUnitsList` only `__init__` and `clear` (what flatten goes through) "
    "are translated - append/extend/insert/pop/remove/item and slice assignment/deepcopy are covered by the build routes of the "
    "differential runs only",
]
TRUSTED_EXTRA = ["C14: sequences are flat WHEN SOLVED (a sequence put together from sub-sequences and flattened is inside the quantifier; "
                 "sequences solved while still nested are outside it; what happens there is reported in evidence notes only)"]

TOL_COORD = 1e-12      # relative to the largest coordinate: two float evaluations of the same rotation
TOL_ANGLE = 1e-7       # degrees


def bits(x):
    return str(struct.unpack("<Q", struct.pack("<d", float(x)))[0])


def unbits(s):
    return struct.unpack("<d", struct.pack("<Q", int(s)))[0]


def _in_impl(e):
    return any("/pyroll/" in f.filename for f in traceback.extract_tb(e.__traceback__)[-6:])


# ---------------------------------------------------------------------------------------------------------------
# tokens:  P:<setting>:<variant>:<cls>   T   Tc   O   R:u   R:n<angle>
#   setting  u | t | f | n<literal>     (n0 = int 0, n0.0 = float, n45, n33.3 …)
#   variant  s2 (stub two-roll pass with the given classifiers) | s3 (stub three-roll pass: given classifiers + "3fold")
#            | g=<kind> (real two-roll pass from common.make_pass) | g3 (real three-roll pass)
#            | gw (real two-roll pass with a wide, shallow oval groove that accepts the workpiece at any angle)
#   a stub pass may carry a 5th component <pres>: the pre-processor factories of its (throw-away) class in yield order,
#   exactly one `F` = rotator_factory (inherited from BaseRollPass), `i` = factory of a plain unit whose solve returns a NEW
#   profile, `m` = factory of a duck unit that returns the profile object it was given, `n` = factory returning None;
#   those left of `F` are registered on a mixin behind Unit in the MRO (yielded first), those right of it on the subclass.
#   units with an inner structure of their own (their `subunits`; the arrangement of the SEQUENCE is what the property talks about):
#     T:<n> / Tc:<n>  transport / cooling pipe subdivided into n disk elements (`disk_element_count=n`; the disk elements exist as
#                     subunits of the transport once it has been solved),
#     O:<n>           plain unit made of n plain parts (its own subunits, solved one after the other by `Unit.solve`),
#     variant~<n>     the roll pass is subdivided into n disk elements (s2~2, s3~1, g=oval~3, gw~2 ...)
# histories: an arrangement is a list of "<id>=<token>"; objects persist between the solves of a history by id.
#
# build routes (`build` of a replay, default "ctor"): HOW the flat sequence holding the listed units was put together -
#   ctor              PassSequence(units)
#   append / prepend  empty sequence, then seq.append(u) in order / seq.prepend(u) in reverse order
#   extend / iadd     seq.subunits.extend(units) / seq.subunits += units
#   insert            seq.subunits.insert(...) in an order that is not the final one
#   slice             seq.subunits[:] = units
#   moved             the units were members of another sequence before: PassSequence(other.units)
#   copy              copy.deepcopy of PassSequence(units) (the copies are driven)
#   flatten:<groups> / flatten-append:<groups>
#                     assembled from sub-sequences and flattened with PassSequence.flatten() until flat; <groups> = `.`-separated
#                     t<k> (k units given directly), n<k> (a nested PassSequence of the next k units, k may be 0), N<k> (nested
#                     twice); flatten-append puts the members in with seq.append(...) instead of the constructor
# ---------------------------------------------------------------------------------------------------------------
def parse_setting(s):
    if s == "u":
        return None
    if s == "t":
        return True
    if s == "f":
        return False
    lit = s[1:]
    return float(lit) if any(c in lit for c in ".en") else int(lit)


def model_setting(s):
    v = parse_setting(s)
    if v is None or v is True or v is False:
        return s
    return "n" + bits(v)


def cls_str(c):
    return ",".join(sorted(c)) if c else "-"


class World:
    """real pyroll objects; nothing global is touched except through `switch` / `Spy`, both restored on exit"""

    def __init__(self):
        import numpy as np
        from pyroll.core import (Unit, PassSequence, TwoRollPass, ThreeRollPass, Transport, CoolingPipe, Rotator, Roll,
                                 BoxGroove, RoundGroove, Profile, Config, BaseRollPass)
        from shapely.geometry import Polygon
        self.np = np
        self.Polygon = Polygon
        self.Profile = Profile
        self.Config = Config
        self.Rotator = Rotator
        self.Transport = Transport
        self.CoolingPipe = CoolingPipe
        self.PassSequence = PassSequence
        self.BaseRollPass = BaseRollPass
        self.Unit = Unit
        # own subclasses (created with type()) so that nothing is registered on the core classes
        self.Stub2 = type("C14Pass2", (TwoRollPass,), {"classifiers": property(lambda s: set(s.c14_cls))})
        self.Stub3 = type("C14Pass3", (ThreeRollPass,), {"classifiers": property(lambda s: set(s.c14_cls) | {"3fold"})})
        self.Other = type("C14Other", (Unit,), {})
        self.roll2 = Roll(groove=BoxGroove(r1=1e-3, r2=2e-3, depth=5e-3, usable_width=20e-3, ground_width=15e-3),
                          nominal_radius=0.1)
        self.roll3 = Roll(groove=RoundGroove(r1=3e-3, r2=12.5e-3, depth=5e-3, pad_angle=30), nominal_radius=0.16)
        self.marker = np.array([(3, 0.5), (1, 2), (-2, 1.5), (-2.5, -1), (0.5, -2.2)]) * 1e-3
        self._pre_classes = {}
        other = self.Other

        class _InPlace:
            label = "in-place pre-processor"

            def solve(self, profile):
                return profile
        self._pre_factories = {
            "i": lambda unit: other(label="neutral pre-processor", duration=0, length=0),
            "m": lambda unit: _InPlace(),
            "n": lambda unit: None,
        }

    def pre_class(self, base, pres):
        """throw-away subclass of a stub pass class carrying further pre-processor factories around the inherited
        `rotator_factory` (nothing is registered on a core class)"""
        key = (base, pres)
        if key not in self._pre_classes:
            if pres.count("F") != 1 or set(pres) - set("Fimn"):
                raise ValueError(pres)
            before, after = pres.split("F")
            mixin = type("C14PreMixin", (), {"pre_processors": [self._pre_factories[c] for c in before]})
            cls = type(base.__name__ + "Pre", (base, mixin), {})
            cls.pre_processors = [self._pre_factories[c] for c in after]
            self._pre_classes[key] = cls
        return self._pre_classes[key]

    # -- global state --------------------------------------------------------------------------------------
    class _Switch:
        def __init__(self, cfg, value):
            self.cfg, self.value = cfg, value

        def __enter__(self):
            self.had = "_ROLL_PASS_AUTO_ROTATION" in vars(self.cfg)
            self.old = vars(self.cfg).get("_ROLL_PASS_AUTO_ROTATION")
            self.cfg.ROLL_PASS_AUTO_ROTATION = self.value

        def __exit__(self, *a):
            if self.had:
                self.cfg.ROLL_PASS_AUTO_ROTATION = self.old
            else:
                try:
                    del self.cfg.ROLL_PASS_AUTO_ROTATION
                except AttributeError:
                    pass

    def switch(self, value):
        return World._Switch(self.Config, value)

    class Spy:
        """records every `Rotator.solve` (who, stated angle, rings, classifier sets before/after)"""

        def __init__(self, world):
            self.w = world
            self.log = []

        def __enter__(self):
            R = self.w.Rotator
            self.had = "solve" in vars(R)
            self.old = vars(R).get("solve")
            orig = R.solve
            spy = self
            np = self.w.np

            def solve(rot, in_profile):
                cls_obj = in_profile.classifiers
                before = set(cls_obj)
                ring_in = np.array(in_profile.cross_section.exterior.coords)
                out = orig(rot, in_profile)
                spy.log.append({
                    "rotator": rot, "auto": isinstance(rot.parent, spy.w.BaseRollPass), "angle": rot.rotation,
                    "explicit": rot.__dict__.get("rotation"),
                    "cls_before": before, "cls_after": set(cls_obj), "cls_obj_now": set(in_profile.classifiers),
                    "cls_out": set(out.classifiers), "aliased": out.classifiers is cls_obj,
                    "ring_in": ring_in, "ring_out": np.array(out.cross_section.exterior.coords),
                    "area_in": in_profile.cross_section.area, "area_out": out.cross_section.area,
                    "len_in": in_profile.cross_section.length, "len_out": out.cross_section.length,
                })
                return out
            R.solve = solve
            return self

        def __exit__(self, *a):
            R = self.w.Rotator
            if self.had:
                R.solve = self.old
            else:
                del R.solve

    # -- objects -------------------------------------------------------------------------------------------
    def profile(self, k, cls):
        return self.Profile(cross_section=self.Polygon(self.marker * (1 + 0.25 * k)), classifiers=set(cls),
                            temperature=1400.0, strain=0.0, length=1.0, t=0.0, density=7.5e3,
                            specific_heat_capacity=690.0, flow_stress=1e8, material="steel")

    def build(self, tok, rng=None):
        """token -> (kind, real unit, model token)"""
        t = tok.split(":")
        if t[0] in ("T", "Tc"):
            kw = {} if len(t) == 1 else {"disk_element_count": int(t[1])}
            return "T", (self.Transport if t[0] == "T" else self.CoolingPipe)(label=t[0], duration=1, **kw), "T"
        if t[0] == "O":
            u = self.Other(label="O", duration=0, length=0)
            if len(t) > 1:
                u.subunits.extend(self.Other(label="O[%d]" % i, duration=0, length=0) for i in range(int(t[1])))
            return "O", u, "O"
        if t[0] == "R":
            if t[1] == "u":
                return "R", self.Rotator(label="R"), "R:u"
            v = parse_setting(t[1])
            return "R", self.Rotator(label="R", rotation=v), "R:n" + bits(v)
        if t[0] == "P":
            s = parse_setting(t[1])
            kw = {} if s is None else {"rotation": s}
            variant, _, disks = t[2].partition("~")
            if disks:
                kw["disk_element_count"] = int(disks)
            cls = set() if len(t) < 4 or t[3] == "-" else set(t[3].split(","))
            pres = t[4] if len(t) > 4 else "F"
            mpres = "" if pres == "F" else ":" + pres.replace("m", "i")
            if variant == "s2":
                c2 = self.Stub2 if pres == "F" else self.pre_class(self.Stub2, pres)
                p = c2(roll=self.roll2, label="P", gap=2e-3, c14_cls=cls, **kw)
            elif variant == "s3":
                c3 = self.Stub3 if pres == "F" else self.pre_class(self.Stub3, pres)
                p = c3(roll=self.roll3, label="P3", inscribed_circle_diameter=22e-3, c14_cls=cls, **kw)
            elif variant == "gw":
                from pyroll.core import RollPass, Roll, CircularOvalGroove
                p = RollPass(label="wide-oval", roll=Roll(groove=CircularOvalGroove(depth=5e-3, r1=6e-3, r2=120e-3),
                                                          nominal_radius=160e-3, rotational_frequency=1), gap=2e-3, **kw)
            else:
                from .common import make_pass
                import random
                r = random.Random(7)          # the groove itself is irrelevant here, keep it fixed
                if variant == "g3":          # a real three-roll pass with a real round groove
                    from pyroll.core import ThreeRollPass
                    p = ThreeRollPass(roll=self.roll3, label="three-round", inscribed_circle_diameter=22e-3, **kw)
                else:
                    p, _ = make_pass(r, kind=variant[2:], **kw)
            return "P", p, "P:%s:%s%s" % (model_setting(t[1]), cls_str(p.classifiers), mpres if variant in ("s2", "s3") else "")
        raise ValueError(tok)

    # -- measured turn between two rings -------------------------------------------------------------------------
    def measure(self, ring_a, ring_b):
        """(angle in degrees by which ring_b is ring_a turned about the origin, congruent?)"""
        np = self.np
        if ring_a.shape != ring_b.shape:
            return float("nan"), False
        a0, b0 = ring_a[0], ring_b[0]
        phi = math.degrees(math.atan2(b0[1], b0[0]) - math.atan2(a0[1], a0[0])) % 360.0
        return phi, self.is_turned(ring_a, ring_b, phi, tol=1e-9)

    def is_turned(self, ring_a, ring_b, deg, tol=TOL_COORD):
        np = self.np
        if ring_a.shape != ring_b.shape:
            return False
        r = math.radians(deg)
        c, s = math.cos(r), math.sin(r)
        exp = np.stack([c * ring_a[:, 0] - s * ring_a[:, 1], s * ring_a[:, 0] + c * ring_a[:, 1]], axis=1)
        return bool(np.abs(exp - ring_b).max() <= tol * max(np.abs(ring_a).max(), 1e-300) * 4)


def ang_eq(a, b, tol=TOL_ANGLE):
    d = (a - b) % 360.0
    return min(d, 360.0 - d) <= tol


def canon_rot(v):
    if v is True:
        return "t"
    if v is False:
        return "f"
    if isinstance(v, (int, float)) and not isinstance(v, bool):
        return "n" + bits(v)
    try:
        import numpy as np
        if isinstance(v, np.bool_):
            return "t" if v else "f"
        return "n" + bits(float(v))
    except Exception:
        return "?" + type(v).__name__


# ---------------------------------------------------------------------------------------------------------------
# the oracle (from the property text)
# ---------------------------------------------------------------------------------------------------------------
class RuleSpec:
    """what the NAMES of the registered rule functions promise: `<in>_<next>_<angle>`, `default_<angle>`,
    `upset_in_<angle>`, `three_roll_pass_<angle>`; priority = evaluation order of the live hook (latest first)"""

    def __init__(self, world):
        self.rows = []
        self.unparsed = []
        hook = world.Rotator.rotation
        # priority as documented: tryfirst before normal before trylast, within a tier the LATEST registration first - computed
        # here from the raw registration lists, not taken from `Hook.functions`
        try:
            order = list(reversed(hook._first_functions)) + list(reversed(hook._functions)) + list(reversed(hook._last_functions))
        except AttributeError:
            order = hook.functions
        for f in order:
            parts = f.name.split("_")
            try:
                ang = int(parts[-1])
            except ValueError:
                self.unparsed.append(f.name)
                self.rows.append((f.name, None, None, None))
                continue
            head = parts[:-1]
            if head == ["default"]:
                self.rows.append((f.name, None, None, ang))
            elif head == ["upset", "in"]:
                self.rows.append((f.name, "upset", None, ang))
            elif head == ["three", "roll", "pass"]:
                self.rows.append((f.name, None, "3fold", ang))
            elif len(head) == 2:
                self.rows.append((f.name, head[0], head[1], ang))
            else:
                self.unparsed.append(f.name)
                self.rows.append((f.name, None, None, None))

    def angle(self, in_cls, next_cls):
        """promised angle, or None when an unparsable rule could take precedence"""
        for name, a, b, ang in self.rows:
            if ang is None:
                return None
            if (a is None or a in in_cls) and (b is None or b in next_cls):
                return ang
        return None


MARKS = {45: "edged", 90: "vertical", 180: "mirrored"}     # "the rotation marks" (docs of Rotator.OutProfile.classifiers)


def check_rotator_record(w, rec):
    """a rotator's outgoing cross-section is the incoming one turned by the stated angle - congruent, equal area and
    perimeter; its classifiers are the incoming ones plus the rotation marks; the incoming set is not written to"""
    probs = []
    th = rec["angle"]
    if not w.is_turned(rec["ring_in"], rec["ring_out"], float(th)):
        probs.append(("rotator-out-not-turned-by-stated-angle", f"out ring is not the in ring turned by {th} deg"))
    # congruent => equal area / perimeter; tolerance: a few ulp per vertex
    n = max(len(rec["ring_in"]), 1)
    if abs(rec["area_out"] - rec["area_in"]) > 1e-13 * n * abs(rec["area_in"]):
        probs.append(("rotator-area-changed", f"area {rec['area_in']} -> {rec['area_out']}"))
    if abs(rec["len_out"] - rec["len_in"]) > 1e-13 * n * abs(rec["len_in"]):
        probs.append(("rotator-perimeter-changed", f"perimeter {rec['len_in']} -> {rec['len_out']}"))
    exp = set(rec["cls_before"]) | {"rotated"}
    for n_, m in MARKS.items():
        if th == n_:
            exp.add(m)
    if rec["cls_out"] != exp:
        probs.append(("rotator-classifiers", f"out classifiers {sorted(rec['cls_out'])} != incoming + marks {sorted(exp)}"))
    if rec["cls_after"] != rec["cls_before"] or rec["cls_obj_now"] != rec["cls_before"] or rec["aliased"]:
        probs.append(("rotator-mutates-incoming-classifiers",
                      f"incoming classifier set changed {sorted(rec['cls_before'])} -> {sorted(rec['cls_after'])}"))
    return probs


def oracle_pairs(w, spec, auto, toks, kinds, units, run):
    """the property as stated, for every pair of consecutive passes of a flat sequence that was processed without error"""
    probs = []
    idx = [i for i, k in enumerate(kinds) if k == "P"]
    for a, b in zip(idx, idx[1:]):
        if b >= len(run) or run[b]["k"] != "P":
            break
        mid = list(range(a + 1, b))
        explicit = [i for i in mid if kinds[i] == "R"]
        setting = parse_setting(toks[b].split(":")[1])
        p = units[b]
        rb = run[b]
        # who is expected to act
        if setting is None:
            entry = (auto and not explicit)
        elif setting is True:
            entry = True
        elif setting is False:
            entry = False
        else:
            entry = (setting != 0)
        acted_explicit = [r for i in mid for r in run[i]["spy"]]
        acted_auto = rb["spy"]
        where = f"pass #{b} (setting {toks[b].split(':')[1]}, auto {'on' if auto else 'off'}, " \
                f"{len(explicit)} explicit rotator(s) after pass #{a})"
        if [r["rotator"] for r in acted_explicit] != [units[i] for i in explicit]:
            probs.append(("explicit-rotator-not-applied-once", f"{where}: explicit rotators did not each act exactly once"))
        n_auto = len(acted_auto)
        if setting is None and auto:
            if explicit and n_auto:
                probs.append(("turned-by-both", f"{where}: explicit rotator AND automatic entry rotation"))
            if not explicit and n_auto == 0:
                probs.append(("turned-by-neither", f"{where}: no explicit rotator and no automatic entry rotation"))
        if n_auto != (1 if entry else 0):
            if not (setting is None and auto):
                key = "global-off-still-rotates" if (setting is None and not auto) else "explicit-setting-not-applied"
                probs.append((key, f"{where}: {n_auto} entry rotation(s), expected {1 if entry else 0}"))
        if n_auto > 1:
            probs.append(("entry-rotation-twice", f"{where}: {n_auto} entry rotations"))
        # stated angles
        for r in acted_auto:
            if any(r["rotator"] is units[i] for i in range(len(units))):
                probs.append(("auto-rotator-is-a-listed-unit", f"{where}"))
            if setting is not None and not isinstance(setting, bool):
                if r["angle"] != setting:
                    probs.append(("explicit-setting-not-applied", f"{where}: entry rotation by {r['angle']}, set to {setting}"))
            else:
                exp = spec.angle(r["cls_before"], p.classifiers)
                if exp is not None and r["angle"] != exp:
                    probs.append(("rule-angle-vs-name", f"{where}: rule-based entry rotation {r['angle']} for "
                                  f"{sorted(r['cls_before'])} -> {sorted(p.classifiers)}, the rule names promise {exp}"))
        for r in acted_explicit:
            if r["explicit"] is not None:
                if r["angle"] != r["explicit"]:
                    probs.append(("explicit-rotator-angle", f"{where}: explicit rotator set to {r['explicit']} turns {r['angle']}"))
            else:
                exp = spec.angle(r["cls_before"], p.classifiers)
                if exp is not None and r["angle"] != exp:
                    probs.append(("rule-angle-vs-name", f"{where}: rule-based explicit rotator {r['angle']} for "
                                  f"{sorted(r['cls_before'])} -> {sorted(p.classifiers)}, the rule names promise {exp}"))
        # value of roll_pass.rotation
        val = rb["rotation"]
        if setting is not None:
            if not (val == setting and isinstance(val, bool) == isinstance(setting, bool)):
                probs.append(("rotation-value-not-the-setting", f"{where}: roll_pass.rotation = {val!r}"))
        elif bool(val) != bool(entry):
            probs.append(("rotation-value-wrong", f"{where}: roll_pass.rotation = {val!r}, expected {'truthy' if entry else 'falsy'}"))
        # measured turn = sum of the stated angles of the rotators that are supposed to act
        total = sum(float(r["angle"]) for r in acted_explicit) + sum(float(r["angle"]) for r in acted_auto)
        if not rb["congruent"]:
            probs.append(("in-profile-not-congruent", f"{where}: in cross-section is not a turned copy of the previous out cross-section"))
        elif not ang_eq(rb["turn"], total):
            probs.append(("measured-turn", f"{where}: measured turn {rb['turn']:.6f} deg, rotators state {total}"))
        # and, from the text alone, with the promised angles where they are known
        exp_total = 0.0
        known = True
        cls = set(run[a]["out_cls"])
        for i in explicit:
            e = units[i].__dict__.get("rotation")
            if e is None:
                e = spec.angle(cls, p.classifiers)
            if e is None:
                known = False
                break
            exp_total += float(e)
            cls = cls | {"rotated"} | ({MARKS[e]} if e in MARKS else set())
        if known and entry:
            e = setting if (setting is not None and not isinstance(setting, bool)) else spec.angle(cls, p.classifiers)
            if e is None:
                known = False
            else:
                exp_total += float(e)
        if known and rb["congruent"] and not ang_eq(rb["turn"], exp_total):
            probs.append(("turn-vs-text", f"{where}: measured turn {rb['turn']:.6f} deg, the property text gives {exp_total}"))
            # who turned it, judged by the measured turn alone (whatever the rotator objects claim)
            if setting is None and auto:
                if not explicit and ang_eq(rb["turn"], 0.0):
                    probs.append(("turned-by-neither", f"{where}: no explicit rotator, and the in profile is not turned at all "
                                  f"(the automatic entry rotation of {exp_total} deg did not arrive)"))
                elif explicit:
                    e2 = spec.angle(cls, p.classifiers)
                    if e2 is not None and e2 != 0 and ang_eq(rb["turn"], exp_total + float(e2)):
                        probs.append(("turned-by-both", f"{where}: measured turn {rb['turn']:.6f} deg = explicit rotator(s) "
                                      f"{exp_total} + automatic entry rotation {e2}"))
    for i, rr in enumerate(run):
        for r in rr["spy"]:
            for (k, what) in check_rotator_record(w, r):
                probs.append((k, f"unit #{i}: {what}"))
    return probs


# ---------------------------------------------------------------------------------------------------------------
# running one flat sequence on the implementation
# ---------------------------------------------------------------------------------------------------------------
def drive(w, auto, cls0, kinds, units, iters=1, reeval=False):
    """Drive the units of a real flat PassSequence the way `Unit._solve_subunits` does, `iters` outer iterations: the profile
    returned by one unit is handed to the next; roll passes are entered with the real `init_solve` and hand out a marker
    profile carrying their classifiers.  With `reeval` the pass' own solution loop is represented by what it does to the
    hook caches (`reevaluate_cache()`, as `Unit.solve` calls it in every iteration).
    Returns the observations of the LAST iteration: run[i] = observation dict of unit i (stops at the first unit that raises)."""
    run = []
    with w.switch(auto), w.Spy(w) as spy:
        for _it in range(iters):
            run = []
            prof = w.profile(0, cls0)
            last_ring = w.np.array(prof.cross_section.exterior.coords)
            npass = 0
            for i, (k, u) in enumerate(zip(kinds, units)):
                spy.log.clear()
                try:
                    if k == "P":
                        u.init_solve(prof)
                        ring = w.np.array(u.in_profile.cross_section.exterior.coords)
                        turn, congr = w.measure(last_ring, ring)
                        npass += 1
                        out = w.profile(npass, u.classifiers)
                        o = {"k": "P", "rotation": u.rotation, "in_cls": set(u.in_profile.classifiers), "turn": turn,
                             "congruent": congr, "spy": list(spy.log), "out_cls": set(u.classifiers)}
                        if reeval:
                            u.reevaluate_cache()
                            o["rotation_after"] = u.rotation
                        run.append(o)
                        prof = out
                        last_ring = w.np.array(out.cross_section.exterior.coords)
                    else:
                        prof = u.solve(prof)
                        o = {"k": k, "spy": list(spy.log)}
                        if k == "R":
                            o["angle"] = u.rotation
                            o["out_cls"] = set(prof.classifiers)
                        run.append(o)
                except Exception as e:
                    if not _in_impl(e):
                        raise
                    run.append({"k": "E", "exc": type(e).__name__, "msg": str(e)[:200], "spy": list(spy.log)})
                    break
            if run and run[-1]["k"] == "E":
                break
    return run


# ---------------------------------------------------------------------------------------------------------------
# build routes: the property quantifies over ARRANGEMENTS "within one pass sequence" - however that sequence was put together
# ---------------------------------------------------------------------------------------------------------------
SIMPLE_ROUTES = ["ctor", "append", "prepend", "extend", "iadd", "insert", "slice", "moved", "copy"]


def parse_groups(spec, n):
    groups = []
    for g in spec.split("."):
        if not g or g[0] not in "tnN":
            raise ValueError(f"group {g!r} of build route")
        groups.append((g[0], int(g[1:])))
    if sum(k for _, k in groups) != n:
        raise ValueError(f"build route groups {spec} do not cover {n} units")
    return groups


def random_groups(rng, n):
    """a split of n units into directly given ones and (possibly empty / doubly) nested sub-sequences; at least one is nested"""
    while True:
        out, left = [], n
        while left > 0:
            if rng.random() < 0.08:
                out.append("n0")
            k = rng.randrange(1, min(left, 4) + 1)
            out.append(rng.choice("nnnttN") + str(k))
            left -= k
        if rng.random() < 0.08 or not out:
            out.append("n0")
        if any(g[0] in "nN" for g in out):
            return ".".join(out)


def random_route(rng, n, p_flatten=0.5):
    if n > 0 and rng.random() < p_flatten:
        return rng.choice(["flatten:", "flatten:", "flatten-append:"]) + random_groups(rng, n)
    return rng.choice(SIMPLE_ROUTES)


def route_without(route, i):
    """the build route of the arrangement with unit #i dropped"""
    head, sep, spec = route.partition(":")
    if not sep:
        return route
    out, pos = [], 0
    for g in spec.split("."):
        k = int(g[1:])
        if pos <= i < pos + k:
            out.append(g[0] + str(k - 1))
        else:
            out.append(g)
        pos += k
    out = [g for g in out if g != "t0"]
    return head + ":" + ".".join(out) if out else "ctor"


def nested(w, units, route):
    """the sequence of a `flatten…:<groups>` route BEFORE it is flattened"""
    PS = w.PassSequence
    head, _, spec = route.partition(":")
    items, pos = [], 0
    for kind, k in parse_groups(spec, len(units)):
        chunk = units[pos:pos + k]
        pos += k
        if kind == "t":
            items.extend(chunk)
        elif kind == "n":
            items.append(PS(chunk))
        else:
            items.append(PS([PS(chunk)]))
    if head == "flatten":
        return PS(items)
    seq = PS([])
    for it in items:
        seq.append(it)
    return seq


def assemble(w, units, route="ctor"):
    """-> (a real PassSequence holding `units` in this order, put together the way `route` says; the unit objects it holds)"""
    PS = w.PassSequence
    route = route or "ctor"
    if route == "ctor":
        seq = PS(units)
    elif route == "append":
        seq = PS([])
        for u in units:
            seq.append(u)
    elif route == "prepend":
        seq = PS([])
        for u in reversed(units):
            seq.prepend(u)
    elif route == "extend":
        seq = PS([])
        seq.subunits.extend(units)
    elif route == "iadd":
        seq = PS(units[:1])
        sub = seq.subunits
        sub += units[1:]
    elif route == "insert":           # odd positions first, then the even ones each at its final place
        seq = PS([])
        for u in units[1::2]:
            seq.subunits.insert(len(seq), u)
        for j in range(0, len(units), 2):
            seq.subunits.insert(j, units[j])
    elif route == "slice":
        seq = PS([])
        seq.subunits[:] = units
    elif route == "moved":
        other = PS(units)
        seq = PS(other.units)
        del other
    elif route == "copy":
        import copy
        seq = copy.deepcopy(PS(units))
        return seq, list(seq)
    elif route.startswith("flatten:") or route.startswith("flatten-append:"):
        seq = nested(w, units, route)
        for _ in range(3):
            if not any(isinstance(u, PS) for u in seq):
                break
            seq.flatten()
    else:
        raise ValueError(f"build route {route!r}")
    if [id(u) for u in seq] != [id(u) for u in units]:
        # not the arrangement that was asked for: nothing the property could be judged on (-> broken tie, see `guarded`)
        raise ValueError(f"build route {route}: the sequence does not hold the listed units in the listed order")
    return seq, list(units)


def run_flow(w, auto, cls0, toks, route="ctor"):
    """one flat sequence of fresh units, put together as `route` says -> (kinds, units, model_tokens, run)"""
    built = [w.build(t) for t in toks]
    kinds = [b[0] for b in built]
    mtoks = [b[2] for b in built]
    seq, units = assemble(w, [b[1] for b in built], route)    # sets the parents (kept alive while the units are driven)
    run = drive(w, auto, cls0, kinds, units)
    del seq
    return kinds, units, mtoks, run


def show_run(run):
    out = []
    for o in run:
        if o["k"] == "P":
            au = [r for r in o["spy"]]
            out.append("P %s %s %.9g %s" % (canon_rot(o["rotation"]), "-" if not au else "+".join(str(r["angle"]) for r in au),
                                            o["turn"], cls_str(o["in_cls"])))
        elif o["k"] == "R":
            out.append("R %s %s" % (o["angle"], cls_str(o["out_cls"])))
        elif o["k"] == "E":
            out.append("E " + o["exc"])
        else:
            out.append("S")
    return out


def compare_with_model(run, line, blind_auto=False, blind_rotation=False):
    """-> None if the model line agrees with the observations, else a description.
    blind_auto: the observations come from a finished real solve, where the auto-rotator object no longer exists - the
    auto column of the model is then not compared (turn, classifiers and rotation value still are).
    blind_rotation: the value of `rotation` read after a finished solve is the re-evaluated one, the model reports the one the
    factory saw on entry - not compared."""
    obs = [x.strip() for x in line.split(";")] if line.strip() else []
    if len(obs) != len(run):
        return f"model emits {len(obs)} observations, implementation {len(run)}"
    for i, (m, o) in enumerate(zip(obs, run)):
        t = m.split()
        if o["k"] == "E":
            if t[0] != "E":
                return f"unit #{i}: implementation raises {o['exc']}, model says {m}"
        elif o["k"] in ("T", "O"):
            if t[0] != "S":
                return f"unit #{i}: model says {m} for a transport/other unit"
        elif o["k"] == "R":
            if t[0] != "R" or unbits(t[1]) != float(o["angle"]) or t[2] != cls_str(o["out_cls"]) and \
                    set(t[2].split(",")) - {"-"} != o["out_cls"]:
                return f"unit #{i}: rotator angle/classifiers: model {m} ({unbits(t[1]) if t[0] == 'R' else ''}), " \
                       f"implementation {o['angle']} {cls_str(o['out_cls'])}"
        else:
            if t[0] != "P":
                return f"unit #{i}: model says {m} for a pass"
            if not blind_rotation and t[1] != canon_rot(o["rotation"]):
                return f"unit #{i}: roll_pass.rotation: model {t[1]}, implementation {canon_rot(o['rotation'])} ({o['rotation']!r})"
            au = o["spy"] if not blind_auto else ([] if t[2] == "-" else [{"angle": unbits(t[2])}])
            if (t[2] == "-") != (len(au) == 0) or len(au) > 1:
                return f"unit #{i}: auto-rotator: model {t[2]}, implementation created {len(au)}"
            if au and unbits(t[2]) != float(au[0]["angle"]):
                return f"unit #{i}: auto-rotator angle: model {unbits(t[2])}, implementation {au[0]['angle']}"
            if not o["congruent"] or not ang_eq(unbits(t[3]), o["turn"]):
                return f"unit #{i}: turn: model {unbits(t[3])}, measured {o['turn']} (congruent={o['congruent']})"
            if (set(t[4].split(",")) - {"-"}) != o["in_cls"]:
                return f"unit #{i}: in-profile classifiers: model {t[4]}, implementation {cls_str(o['in_cls'])}"
    return None


# ---------------------------------------------------------------------------------------------------------------
# generators
# ---------------------------------------------------------------------------------------------------------------
SETTINGS_Q = ["u", "t", "f", "n0", "n45", "n90", "n33.3"]
SETTINGS_X = SETTINGS_Q + ["n1", "n-90", "n360", "n0.0", "n-0.0", "n180", "n90.0"]
ROT_ANGLES = ["n90", "n45", "u", "n0", "n180", "n33.3", "n90", "n-45"]
IN_VOCAB = ["square", "box", "flat", "oval", "upset"]
NEXT_VOCAB = ["oval", "box", "diamond", "flat", "3fold"]
CLS_POOL = [["oval"], ["round"], ["square", "diamond"], ["box"], ["flat"], ["diamond"], ["oval", "upset"], ["box", "upset"],
            ["flat", "oval"], ["hexagon"], [], ["square"], ["false_round", "round"]]

CORPUS = [
    # the probes of DESIGN.md: explicit rotator directly before the pass / before the intervening transport / none
    (True, ["round"], ["P:u:s2:oval", "R:n90", "P:u:s2:round"]),
    (True, ["round"], ["P:u:s2:oval", "R:n90", "T", "P:u:s2:round"]),
    (True, ["round"], ["P:u:s2:oval", "T", "R:n90", "T", "O", "P:u:s2:round"]),
    (True, ["round"], ["P:u:s2:oval", "T", "P:u:s2:round"]),
    (True, ["round"], ["P:u:s2:oval", "T", "O", "T", "P:u:s2:round"]),
    (True, ["round"], ["R:n90", "P:u:s2:oval", "T", "P:u:s2:round"]),                # a rotator BEFORE pass k does not count
    (True, ["round"], ["P:u:s2:oval", "R:n45", "R:n45", "P:u:s2:round"]),            # successive rotations add up
    (True, ["round"], ["P:u:s2:oval", "R:u", "T", "P:u:s3:round"]),                  # rule-based explicit rotator, 3-roll pass
    (True, ["square"], ["P:u:s2:square,diamond", "P:u:s2:oval", "P:u:s2:flat", "P:u:s2:flat"]),
    (True, ["round"], ["P:u:s2:oval", "R:n90", "P:t:s2:round"]),                     # True: rule based even after a rotator
    (True, ["round"], ["P:u:s2:oval", "P:f:s2:round", "P:n0:s2:oval", "P:n45:s2:round", "P:n33.3:s2:oval"]),
    (False, ["round"], ["P:u:s2:oval", "T", "P:u:s2:round", "R:n90", "P:u:s2:oval", "P:t:s2:round", "P:n45:s2:box"]),
    (True, ["round"], ["P:u:s2:oval", "R:u"]),                                       # rule-based rotator without next pass
    (True, ["round"], ["P:u:g=oval", "Tc", "P:u:g=round", "R:n90", "Tc", "P:u:g3"]),
]


# arrangements whose sequence is put together in another way than by the constructor / whose units have an inner structure:
# the arrangement of the sequence decides who turns the workpiece, nothing else
CORPUS_BUILT = [
    (True, ["round"], ["P:u:s2:oval", "T", "P:u:s2:round", "R:n30", "T", "P:u:s2:oval"], "flatten:n2.n4"),        # two mills
    (True, ["round"], ["P:u:s2:oval", "T", "R:n90", "P:u:s2:round", "T", "P:u:s2:oval"], "flatten-append:t2.n4"),
    (True, ["round"], ["P:u:s2:oval", "R:u", "T", "P:u:s2:round"], "flatten:n1.N3"),
    (True, ["round"], ["P:u:s2:oval", "T", "P:u:s2:round"], "flatten:n1.n0.n2"),
    (True, ["round"], ["P:u:s2:oval", "R:n90", "T", "P:u:s2:round"], "copy"),
    (True, ["round"], ["P:u:s2:oval", "R:n90", "T", "P:u:s2:round"], "moved"),
    (False, ["round"], ["P:u:s2:oval", "R:n45", "P:u:s2:round", "P:t:s2:oval"], "flatten:n4"),
    (True, ["round"], ["P:u:s2:oval", "R:n30", "T:4", "P:u:s2:round"], "ctor"),            # disk elements behind the rotator
    (True, ["round"], ["P:u:s2:oval", "T:3", "R:n90", "P:u:s2:round"], "ctor"),            # … in front of it
    (True, ["round"], ["P:u:s2:oval", "R:u", "Tc:1", "O:2", "P:u:s2:round"], "ctor"),
    (True, ["round"], ["P:u:s2~3:oval", "R:n90", "T", "P:u:s2~3:round"], "ctor"),          # passes with disk elements
    (True, ["round"], ["P:u:s2~2:oval", "T:2", "O:1", "P:u:s3~1:round"], "append"),        # no rotator: the pass turns it
]


# histories that failed once (the stale `rotation` cache of rotator_factory, see notes/C14.md)
CORPUS_HIST = [
    {"in_profile_classifiers": ["round"], "real": False, "steps": [       # explicit rotator inserted into a solved sequence
        {"auto_rotation": True, "iterations": 1, "units": ["0=P:u:s2:oval", "1=T", "2=P:u:s2:round"]},
        {"auto_rotation": True, "iterations": 1, "units": ["0=P:u:s2:oval", "3=R:n0", "1=T", "2=P:u:s2:round"]}]},
    {"in_profile_classifiers": ["round"], "real": False, "steps": [       # … and removed from one
        {"auto_rotation": True, "iterations": 2, "units": ["0=P:u:s2:oval", "3=R:n90", "1=T", "2=P:u:s2:round"]},
        {"auto_rotation": True, "iterations": 1, "units": ["0=P:u:s2:oval", "1=T", "2=P:u:s2:round"]}]},
    {"in_profile_classifiers": ["round"], "real": False, "steps": [       # the global switch toggled between two solves
        {"auto_rotation": True, "iterations": 2, "units": ["0=P:u:s2:oval", "1=T", "2=P:u:s2:round"]},
        {"auto_rotation": False, "iterations": 1, "units": ["0=P:u:s2:oval", "1=T", "2=P:u:s2:round"]}]},
    {"in_profile_classifiers": ["round"], "real": False, "steps": [       # several iterations after the edit
        {"auto_rotation": True, "iterations": 1, "units": ["0=P:u:s2:oval", "1=T", "2=P:u:s2:round"]},
        {"auto_rotation": True, "iterations": 3, "units": ["0=P:u:s2:oval", "3=R:n45", "1=T", "2=P:u:s2:round"]},
        {"auto_rotation": True, "iterations": 2, "units": ["0=P:u:s2:oval", "1=T", "2=P:u:s2:round"]}]},
    {"in_profile_classifiers": ["round"], "real": True, "steps": [        # real solves at the default iteration count
        {"auto_rotation": True, "max_iteration_count": None, "units": ["0=P:u:g=oval", "1=T", "2=P:u:gw"]},
        {"auto_rotation": False, "max_iteration_count": None, "units": ["0=P:u:g=oval", "1=T", "2=P:u:gw"]},
        {"auto_rotation": True, "max_iteration_count": None, "units": ["0=P:u:g=oval", "3=R:n0", "1=T", "2=P:u:gw"]},
        {"auto_rotation": True, "max_iteration_count": None, "units": ["0=P:u:g=oval", "1=T", "2=P:u:gw"]}]},
]


def words(alphabet, n):
    if n == 0:
        yield []
        return
    for wd in words(alphabet, n - 1):
        for a in alphabet:
            yield wd + [a]


def realise(rng, word, settings, all_unset, pos_seed=0, variants=("s2",), pipes=False, inner=0.0):
    """word over {P, T, R, O} -> tokens; with probability `inner` a transport / plain unit / pass gets an inner structure of its
    own (disk elements, parts) - irrelevant to the arrangement of the sequence the property talks about"""
    toks = []
    for i, a in enumerate(word):
        deep = inner > 0 and rng.random() < inner
        if a == "P":
            s = "u" if (all_unset or rng.random() < 0.4) else rng.choice(settings)
            v = rng.choice(variants)
            c = CLS_POOL[(pos_seed + 3 * i) % len(CLS_POOL)] if all_unset else rng.choice(CLS_POOL)
            if deep:
                v += "~" + str(rng.randrange(1, 4))
            if v.startswith("g"):
                toks.append(f"P:{s}:{v}")
            else:
                toks.append(f"P:{s}:{v}:{cls_str(c)}")
        elif a == "T":
            toks.append(("Tc" if pipes and rng.random() < 0.3 else "T") + (":" + str(rng.randrange(1, 5)) if deep else ""))
        elif a == "R":
            toks.append("R:" + (ROT_ANGLES[(pos_seed + i) % len(ROT_ANGLES)] if all_unset else rng.choice(ROT_ANGLES)))
        else:
            toks.append("O" + (":" + str(rng.randrange(1, 4)) if deep else ""))
    return toks


def needs_next_pass_ok(toks):
    """does every rule-based explicit rotator have a following pass (otherwise the implementation raises IndexError)"""
    for i, t in enumerate(toks):
        if t == "R:u" and not any(x.startswith("P:") for x in toks[i + 1:]):
            return False
    return True


# ---------------------------------------------------------------------------------------------------------------
# translate / run / replay
# ---------------------------------------------------------------------------------------------------------------
def guarded(ctx, what, replay_obj, fn):
    """Run harness code that inspects values produced by the implementation.  Behaviour of the implementation the harness
    does not expect (a value of another type, a missing profile, a ring of another shape …) surfaces as TypeError /
    AttributeError / ValueError … of HARNESS code; that is reported as a broken tie with the case as replay (the extended search
    then looks for a judged failing input), never as a crash of the check.  Exceptions raised inside pyroll are handled where
    the implementation is called (they become observations / violations)."""
    try:
        return fn()
    except InfraError:
        raise
    except Exception as e:
        ctx.count("harness-could-not-judge:" + type(e).__name__)
        ctx.disagreement(f"the implementation behaves in a way the harness cannot judge ({what}): {type(e).__name__}: {e}",
                         dict(replay_obj, trace=traceback.format_exc()[-1500:]))
        return None


def translate(ctx):
    try:
        ctx.c14_data = c14_rot.emit(REPO, LEAN_DIR)
    except c14_rot.Gap as g:
        ctx.c14_data = None
        ctx.tie_breaks.append(f"translator (driver/translate/c14_rot.py): source left the translatable subset: {g}")


def _data(ctx):
    d = getattr(ctx, "c14_data", None)
    if d is None:
        try:
            d = c14_rot.extract_all(REPO)
        except c14_rot.Gap:
            d = None
    return d


def _report(ctx, key, what, auto, cls0, toks, run, route="ctor"):
    ctx.violation(key, what, {"auto_rotation": auto, "in_profile_classifiers": sorted(cls0), "units": toks, "build": route,
                              "observed": show_run(run),
                              "how": "driver/props/c14.py run_flow(World(), auto, cls0, units, build): a real PassSequence of the listed units "
                                     "(P:<rotation setting>:<pass variant>[~<disk elements>]:<classifiers>, T[:<disk elements>] transport, "
                                     "Tc[:<n>] cooling pipe, O[:<parts>] plain unit, R:<angle|u> explicit rotator) put together as `build` says "
                                     "(ctor = PassSequence(units); append/prepend/extend/iadd/insert/slice = through the list operations; "
                                     "moved = PassSequence(other.units); copy = deepcopy; flatten:<groups> = from sub-sequences n<k>/N<k> and "
                                     "direct members t<k>, then seq.flatten()); units are solved in order with "
                                     "Config.ROLL_PASS_AUTO_ROTATION = auto_rotation, passes entered with init_solve; "
                                     "./check C14 --replay <this file>"})


def simpler_token(tok):
    """the same unit without an inner structure of its own (no disk elements / parts), or None"""
    t = tok.split(":")
    if t[0] in ("T", "Tc", "O") and len(t) > 1:
        return t[0]
    if t[0] == "P" and "~" in t[2]:
        return ":".join(t[:2] + [t[2].partition("~")[0]] + t[3:])
    return None


def shrink(w, spec, auto, cls0, toks, key, route="ctor"):
    """drop units / simplify units and the build route while the same kind of problem persists -> (units, build route)"""
    def fails(cand, r):
        try:
            kinds, units, _, run = run_flow(w, auto, cls0, cand, r)
        except ValueError:
            return False
        if run and run[-1]["k"] == "E":
            return False
        return any(k == key for (k, _) in oracle_pairs(w, spec, auto, cand, kinds, units, run))
    cur = list(toks)
    if route != "ctor" and fails(cur, "ctor"):
        route = "ctor"
    changed = True
    while changed and len(cur) > 1:
        changed = False
        for i in range(len(cur)):
            cand = cur[:i] + cur[i + 1:]
            r = route_without(route, i)
            if fails(cand, r):
                cur, route = cand, r
                changed = True
                break
    for i in range(len(cur)):
        st = simpler_token(cur[i])
        if st is not None and fails(cur[:i] + [st] + cur[i + 1:], route):
            cur[i] = st
    if ":" in route:        # fewer / simpler groups
        head, _, spec_ = route.partition(":")
        gs = spec_.split(".")
        j = 0
        while j < len(gs):
            cands = []
            if gs[j] in ("n0", "N0"):
                cands.append(gs[:j] + gs[j + 1:])
            if gs[j][0] == "N":
                cands.append(gs[:j] + ["n" + gs[j][1:]] + gs[j + 1:])
            if gs[j][0] in "nN":
                cands.append(gs[:j] + ["t" + gs[j][1:]] + gs[j + 1:])
            for c in cands:
                c = [g for g in c if g != "t0"]
                r = head + ":" + ".".join(c) if any(g[0] in "nN" for g in c) else "ctor"
                if c and fails(cur, r):
                    gs, route = c, r
                    break
            else:
                j += 1
                continue
            if ":" not in route:
                break
        if route.startswith("flatten-append:") and fails(cur, "flatten:" + route.partition(":")[2]):
            route = "flatten:" + route.partition(":")[2]
    return cur, route


# ---------------------------------------------------------------------------------------------------------------
# histories: ONE sequence is solved, edited, solved again …  (the arrangement reached by editing is still an arrangement)
# ---------------------------------------------------------------------------------------------------------------
# what a decision taken from the value cached by an earlier solve looks like in a solve that ran ONE outer iteration
STALE_KEYS = {"turned-by-both", "turned-by-neither", "global-off-still-rotates", "rotation-value-wrong", "turn-vs-text"}
STALE_KEY = "resolve-single-iteration-stale-rotation"


def hist_key(step, iterations, key):
    """stable key of a problem seen in step `step` (0 = first solve of fresh objects) of a history"""
    if step == 0:
        return key
    if iterations == 1 and key in STALE_KEYS:
        return STALE_KEY
    return "resolve-" + key


def cache_str(v):
    return "t" if v is True else "f" if v is False else "-" if v is None else "?" + repr(v)


class Hist:
    """a live real PassSequence whose unit objects persist (by id) between the solves of a history"""

    def __init__(self, w, cls0, real=False):
        self.w, self.cls0, self.real = w, cls0, real
        self.objs = {}            # id -> [kind, unit, token, model token]
        self.iterations = [0]
        self._new_seq([])

    def _new_seq(self, units):
        self.seq = self.w.PassSequence(units)
        if self.real:
            orig = self.seq._solve_subunits
            counter = self.iterations

            def counted():
                counter[0] += 1
                return orig()
            self.seq._solve_subunits = counted      # instance attribute: counts the outer iterations of `seq.solve`

    def _retune(self, o, tok):
        """the same object with another `rotation` setting (set / deleted on the live object)"""
        old, new = o[2].split(":"), tok.split(":")
        if old[0] != new[0] or old[2:] != new[2:]:
            raise ValueError(f"history token {tok} does not describe the object {o[2]}")
        v = parse_setting(new[1])
        if v is None:
            del o[1].rotation
        else:
            o[1].rotation = v
        o[2] = tok
        if o[0] == "P":
            m = o[3].split(":")
            o[3] = ":".join([m[0], model_setting(new[1])] + m[2:])
        else:
            o[3] = "R:u" if v is None else "R:n" + bits(v)

    def arrange(self, arr, via=None):
        """edit the live sequence so that it holds the units of `arr` (list of "<id>=<token>") in that order, with a
        single insert / append / prepend / remove / del / drop / pop / item assignment where one suffices, else by slice
        assignment.  `via` (optional) then re-organises the sequence WITHOUT changing the arrangement:
        "flatten:<i>-<j>" = the units [i, j) are taken out, put into a sub-sequence of their own which is inserted in their
        place, and the sequence is flattened again with PassSequence.flatten(); "rebuild" = a new PassSequence object is made of
        the same units (the old one is dropped)"""
        ids = []
        for item in arr:
            i, tok = item.split("=", 1)
            o = self.objs.get(i)
            if o is None:
                k, u, m = self.w.build(tok)
                self.objs[i] = [k, u, tok, m]
            elif o[2] != tok:
                self._retune(o, tok)
            ids.append(i)
        new = [self.objs[i][1] for i in ids]
        sub = self.seq.subunits
        old = list(sub)
        if [id(u) for u in old] != [id(u) for u in new]:
            done = False
            if len(new) == len(old) + 1:
                for j in range(len(new)):
                    if [id(u) for u in new[:j] + new[j + 1:]] == [id(u) for u in old]:
                        if j == len(old) and len(new) % 2 == 0:
                            self.seq.append(new[j])
                        elif j == 0 and len(new) % 2 == 0:
                            self.seq.prepend(new[j])
                        else:
                            sub.insert(j, new[j])
                        done = True
                        break
            elif len(new) == len(old) - 1:
                for j in range(len(old)):
                    if [id(u) for u in old[:j] + old[j + 1:]] == [id(u) for u in new]:
                        if j % 4 == 1:
                            sub.remove(old[j])
                        elif j % 4 == 2:
                            self.seq.drop(j)
                        elif j % 4 == 3:
                            sub.pop(j)
                        else:
                            del sub[j]
                        done = True
                        break
            elif len(new) == len(old):
                diff = [j for j in range(len(new)) if new[j] is not old[j]]
                if len(diff) == 1 and all(new[diff[0]] is not u for u in old):
                    sub[diff[0]] = new[diff[0]]
                    done = True
            if not done:
                sub[:] = new
        if via == "rebuild":
            self._new_seq(list(self.seq.units))
        elif via:
            head, _, rng_ = via.partition(":")
            i, j = (int(x) for x in rng_.split("-"))
            if head != "flatten" or not 0 <= i <= j <= len(new):
                raise ValueError(f"history step via={via!r}")
            sub = self.seq.subunits
            chunk = list(sub[i:j])
            del sub[i:j]
            sub.insert(i, self.w.PassSequence(chunk))
            self.seq.flatten()
        if [id(u) for u in self.seq] != [id(u) for u in new]:
            raise ValueError(f"history step (via={via}): the sequence does not hold the listed units in the listed order")
        self.ids = ids
        self.kinds = [self.objs[i][0] for i in ids]
        self.units = new
        self.toks = [self.objs[i][2] for i in ids]

    def slots(self):
        out = []
        for i in self.ids:
            k, _, _, m = self.objs[i]
            out.append("P#%s:%s" % (i, m[2:]) if k == "P" else m)
        return out

    def caches(self):
        return ",".join(cache_str(self.objs[i][1].__cache__.get("rotation")) for i in self.ids if self.objs[i][0] == "P")

    def solve(self, auto, iterations=1, mic=None):
        """-> (run, iterations done).  Marker flows: exactly `iterations` outer iterations are driven.  Real flows:
        `seq.solve(in profile)` with `max_iteration_count = mic` (None = default); the iterations are counted."""
        w = self.w
        if not self.real:
            return drive(w, auto, self.cls0, self.kinds, self.units, iters=iterations, reeval=True), iterations
        import random
        from .common import make_in_profile
        if mic is None:
            self.seq.__dict__.pop("max_iteration_count", None)
        else:
            self.seq.max_iteration_count = mic
        self.iterations[0] = 0
        try:
            with w.switch(auto):
                self.seq.solve(make_in_profile(random.Random(7), "round", size=30e-3))
        except Exception as e:
            if not _in_impl(e):
                raise
            return None, self.iterations[0]
        return observe_solved(w, self.seq, self.kinds, self.units), self.iterations[0]


def observe_solved(w, seq, kinds, units):
    """observations on the units of a sequence after a real `solve` (the auto-rotators no longer exist: whether one acted is
    read off the geometry)"""
    np = w.np
    run_ = []
    last_ring = np.array(seq.in_profile.cross_section.exterior.coords)
    for kd, u in zip(kinds, units):
        if kd == "P":
            ring = np.array(u.in_profile.cross_section.exterior.coords)
            turn, congr = w.measure(last_ring, ring)
            last_ring = np.array(u.out_profile.cross_section.exterior.coords)
            run_.append({"k": "P", "rotation": u.rotation, "in_cls": set(u.in_profile.classifiers), "turn": turn, "congruent": congr,
                         "spy": [], "out_cls": set(u.out_profile.classifiers)})
        elif kd == "R":
            run_.append({"k": "R", "angle": u.rotation, "out_cls": set(u.out_profile.classifiers), "spy": []})
        else:
            run_.append({"k": kd, "spy": []})
    return run_


def judge_solved(spec, auto, toks, kinds, units, run_):
    """the property text on the FINAL state of a really solved flat sequence: total turn between consecutive passes,
    in-profile classifiers, value of `rotation` -> [(key, what)]"""
    probs = []
    idx = [i for i, k in enumerate(kinds) if k == "P"]
    for a, b in zip(idx, idx[1:]):
        setting = parse_setting(toks[b].split(":")[1])
        explicit = [i for i in range(a + 1, b) if kinds[i] == "R"]
        if setting is None:
            entry = auto and not explicit
        elif isinstance(setting, bool):
            entry = setting
        else:
            entry = setting != 0
        total = 0.0
        cls = set(run_[a]["out_cls"])
        known = True
        where = f"pass #{b} (setting {toks[b].split(':')[1]}, auto {'on' if auto else 'off'}, {len(explicit)} explicit rotator(s))"
        for i in explicit:
            e = units[i].__dict__.get("rotation")
            if e is None:
                e = spec.angle(cls, units[b].classifiers)
            if e is None:
                known = False
                break
            if units[i].rotation != e:
                probs.append(("explicit-rotator-angle", f"explicit rotator #{i} turns {units[i].rotation}, expected {e}"))
            total += float(e)
            cls = cls | {"rotated"} | ({MARKS[e]} if e in MARKS else set())
        explicit_total = total
        auto_angle = None
        if known:
            auto_angle = setting if (setting is not None and not isinstance(setting, bool)) else spec.angle(cls, units[b].classifiers)
        if known and entry:
            if auto_angle is None:
                known = False
            else:
                total += float(auto_angle)
                cls = cls | {"rotated"} | ({MARKS[auto_angle]} if auto_angle in MARKS else set())
        rb = run_[b]
        if not rb["congruent"]:
            probs.append(("in-profile-not-congruent", f"{where}: in cross-section is not a turned copy of the previous out cross-section"))
        elif known and not ang_eq(rb["turn"], total):
            key = "turn-vs-text"
            if setting is None and auto:
                if explicit and auto_angle is not None and ang_eq(rb["turn"], explicit_total + float(auto_angle)):
                    key = "turned-by-both"
                elif not explicit and ang_eq(rb["turn"], 0):
                    key = "turned-by-neither"
            elif setting is None and not auto:
                key = "global-off-still-rotates"
            probs.append((key, f"{where}: measured turn {rb['turn']:.6f} deg, the property text gives {total}"))
        if known and rb["in_cls"] != cls and rb["congruent"] and ang_eq(rb["turn"], total):
            probs.append(("in-profile-classifiers", f"{where}: in classifiers {sorted(rb['in_cls'])}, expected {sorted(cls)}"))
        val = rb["rotation"]
        if setting is not None:
            if not (val == setting and isinstance(val, bool) == isinstance(setting, bool)):
                probs.append(("rotation-value-not-the-setting", f"{where}: roll_pass.rotation = {val!r}"))
        elif bool(val) != bool(entry):
            probs.append(("rotation-value-wrong", f"{where}: roll_pass.rotation = {val!r}"))
    return probs


HIST_HOW = ("driver/props/c14.py exec_hist(World(), spec, history): ONE real PassSequence; every step lists its units as <id>=<token> "
            "(objects persist by id; P:<rotation setting>:<pass variant>:<classifiers>[:<pre-processors>], T transport, Tc cooling "
            "pipe, O plain unit, R:<angle|u> explicit rotator); between the steps the live sequence is edited with "
            "subunits.insert/remove/del/pop/item or slice assignment, seq.append/prepend/drop, and `rotation` is set/deleted on the live "
            "pass; a step with `via` then re-organises the sequence without changing the arrangement (flatten:<i>-<j> = units [i, j) moved "
            "into a sub-sequence in their place + seq.flatten(); rebuild = new PassSequence of the same units); T:<n>/Tc:<n>/O:<n>/"
            "<variant>~<n> = units subdivided into n disk elements / parts; each step solves with "
            "Config.ROLL_PASS_AUTO_ROTATION = auto_rotation: marker flows drive `iterations` outer iterations unit by unit (passes "
            "entered with init_solve + reevaluate_cache), real flows call seq.solve(Profile.round(30 mm)) with "
            "max_iteration_count; the FINAL state of the last step is judged; ./check C14 --replay <this file>")


def exec_hist(w, spec, hist):
    """execute a history on fresh objects -> list per step of (run, iterations, [(classified key, what)], caches, slots)"""
    h = Hist(w, hist["in_profile_classifiers"], real=hist.get("real", False))
    res = []
    for j, st in enumerate(hist["steps"]):
        h.arrange(st["units"], st.get("via"))
        run_, its = h.solve(st["auto_rotation"], st.get("iterations", 1), st.get("max_iteration_count"))
        probs = []
        if run_ is not None:
            probs = judge_hist_step(w, spec, h, st["auto_rotation"], run_)
        res.append((run_, its, [(hist_key(j, its, k), what) for (k, what) in probs], h.caches(), h.slots()))
        if run_ is None:
            break
    return res


def judge_hist_step(w, spec, h, auto, run_):
    if h.real:
        return judge_solved(spec, auto, h.toks, h.kinds, h.units, run_)
    probs = list(oracle_pairs(w, spec, auto, h.toks, h.kinds, h.units, run_))
    if run_ and run_[-1]["k"] == "E":
        ie = len(run_) - 1
        if not (h.toks[ie] == "R:u" and not any(x.startswith("P:") for x in h.toks[ie + 1:])):
            probs.append(("flow-raises-" + run_[-1]["exc"], f"unit #{ie} raises {run_[-1]['exc']}: {run_[-1]['msg']}"))
    return probs


def hist_fails(w, spec, hist, key):
    res = exec_hist(w, spec, hist)
    return len(res) == len(hist["steps"]) and any(k == key for (k, _) in res[-1][2])


def shrink_hist(w, spec, hist, key):
    """drop steps / objects / iterations while the LAST step still shows the same kind of problem"""
    cur = hist
    changed = True
    budget = 60
    while changed and budget > 0:
        changed = False
        cands = []
        n = len(cur["steps"])
        for j in range(n - 1):
            cands.append(dict(cur, steps=cur["steps"][:j] + cur["steps"][j + 1:]))
        ids = sorted({it.split("=")[0] for st in cur["steps"] for it in st["units"]})
        for i in ids:
            steps = [dict(st, units=[it for it in st["units"] if it.split("=")[0] != i]) for st in cur["steps"]]
            if all(st["units"] for st in steps):
                cands.append(dict(cur, steps=steps))
        for j in range(n):
            if cur["steps"][j].get("via"):
                cands.append(dict(cur, steps=cur["steps"][:j] + [{k_: v_ for k_, v_ in cur["steps"][j].items() if k_ != "via"}]
                                  + cur["steps"][j + 1:]))
        for j in range(n):
            for q, it in enumerate(cur["steps"][j]["units"]):
                i_, tok_ = it.split("=", 1)
                st_ = simpler_token(tok_)
                if st_ is not None and not cur["steps"][j].get("via"):
                    steps = [dict(st, units=[(i_ + "=" + st_) if x.split("=", 1)[0] == i_ else x for x in st["units"]])
                             for st in cur["steps"]]
                    cands.append(dict(cur, steps=steps))
        for j in range(n):
            if cur["steps"][j].get("iterations", 1) > 1 and not cur.get("real"):
                cands.append(dict(cur, steps=cur["steps"][:j] + [dict(cur["steps"][j], iterations=cur["steps"][j]["iterations"] - 1)]
                                  + cur["steps"][j + 1:]))
        for c in cands:
            budget -= 1
            if budget <= 0:
                break
            try:
                ok = hist_fails(w, spec, c, key)
            except InfraError:
                raise
            except Exception:
                ok = False
            if ok:
                cur = c
                changed = True
                break
    return cur


def report_hist(ctx, w, spec, hist, key, what):
    res = exec_hist(w, spec, hist)
    obs = []
    for (run_, its, probs, caches, _s) in res:
        obs.append({"iterations_done": its, "observed": show_run(run_) if run_ is not None else "solve raised",
                    "cached_rotation_of_the_passes": caches})
        for (k, x) in probs:
            if k == key:
                what = x
    ctx.violation(key, what, dict(hist, observed=obs, how=HIST_HOW))


EDIT_ROT = ["n90", "n45", "n0", "n180", "u", "n33.3", "n-90", "n90"]


def edit_arrangement(rng, arr, next_id, real=False):
    """one edit of a token arrangement -> (new arrangement, description) - insert / remove / replace rotators, transports,
    other units and passes, swap neighbours, change a pass' rotation setting"""
    arr = list(arr)
    kinds = [it.split("=", 1)[1].split(":")[0] for it in arr]
    rots = [j for j, k in enumerate(kinds) if k == "R"]
    plain = [j for j, k in enumerate(kinds) if k in ("T", "Tc", "O")]
    passes = [j for j, k in enumerate(kinds) if k == "P"]
    ops = ["ins-rot"] * 5 + ["del-rot"] * 5 + ["ins-plain", "del-plain", "replace", "set", "set", "swap", "none"]
    if not real:
        ops += ["ins-pass", "del-pass"]
    op = rng.choice(ops)
    new_rot = "R:" + rng.choice(["n90", "n0", "n180", "n30", "u", "n90"] if real else EDIT_ROT)
    if op == "ins-rot":
        j = rng.randrange(0, len(arr) + 1)
        arr.insert(j, f"{next_id}={new_rot}")
    elif op == "del-rot" and rots:
        del arr[rng.choice(rots)]
    elif op == "ins-plain":
        arr.insert(rng.randrange(0, len(arr) + 1), f"{next_id}=" + rng.choice(["T", "T", "O", "Tc", "T:3", "Tc:2", "O:2"]))
    elif op == "del-plain" and plain:
        del arr[rng.choice(plain)]
    elif op == "replace" and (rots or plain):
        j = rng.choice(rots + plain)
        arr[j] = f"{next_id}=" + (rng.choice(["T", "O", "T:2", "O:1"]) if kinds[j] == "R" else new_rot)
    elif op == "set" and passes:
        j = rng.choice(passes[1:] or passes)
        i, tok = arr[j].split("=", 1)
        t = tok.split(":")
        t[1] = rng.choice(["t", "f", "n0", "n45"] if real else SETTINGS_X) if (t[1] == "u" or rng.random() < 0.3) else "u"
        arr[j] = i + "=" + ":".join(t)
    elif op == "swap" and len(arr) >= 2:
        j = rng.randrange(0, len(arr) - 1)
        if not (real and "P" in (kinds[j], kinds[j + 1])):
            arr[j], arr[j + 1] = arr[j + 1], arr[j]
    elif op == "ins-pass":
        c = rng.choice(CLS_POOL)
        arr.insert(rng.randrange(0, len(arr) + 1), f"{next_id}=P:u:{rng.choice(['s2', 's2', 's3', 's2~2'])}:{cls_str(c)}")
    elif op == "del-pass" and len(passes) > 2:
        del arr[rng.choice(passes)]
    else:
        op = "none"
    return arr, op


def history_stream(ctx, w, spec, lines, expect, model, seen_keys, n_cases, real=False):
    """(h) marker flows / (i) real PassSequence.solve: one sequence, solved, edited, solved again …; every solve's FINAL state is
    judged from the property text and compared with the model (which carries the cached `rotation` values between the solves)"""
    rng = ctx.rng
    for _case in range(n_cases):
        if real:
            npass = rng.randrange(2, 4)
            arr = ["0=P:u:g=oval"]
            nid = 1
            for k in range(1, npass):
                for _j in range(rng.randrange(0, 3)):
                    arr.append(f"{nid}=" + rng.choice(["T", "T", "Tc", "R:n90", "O", "T:2", "Tc:1", "R:n90"]))
                    nid += 1
                arr.append(f"{nid}=P:{'u' if rng.random() < 0.7 else rng.choice(['t', 'f', 'n45'])}:gw")
                nid += 1
            cls0 = ["round"]
        else:
            n = rng.randrange(2, 7)
            wd = [rng.choice(["P", "P", "P", "T", "T", "R", "O"]) for _ in range(n)]
            if wd.count("P") < 2:
                wd += ["P"]
            toks = realise(rng, wd, SETTINGS_X, False, variants=("s2", "s2", "s3"), pipes=True, inner=0.2)
            if rng.random() < 0.2:       # a class with further pre-processors
                j = rng.choice([j for j, t in enumerate(toks) if t.startswith("P:")])
                toks[j] += ":" + rng.choice(PRE_PATTERNS)
            arr = [f"{j}={t}" for j, t in enumerate(toks)]
            nid = len(arr)
            cls0 = rng.choice(CLS_POOL)
        auto = rng.random() < 0.8
        hist = {"in_profile_classifiers": sorted(cls0), "real": real, "steps": []}
        h = Hist(w, cls0, real=real)
        nsteps = rng.randrange(2, 6)
        nontriv = False
        for j in range(nsteps):
            op = "first"
            if j > 0:
                if rng.random() < 0.25:
                    auto = not auto
                    op = "switch"
                    if rng.random() < 0.5:
                        arr, op2 = edit_arrangement(rng, arr, nid, real)
                        op += "+" + op2
                else:
                    for _try in range(5):
                        cand, op = edit_arrangement(rng, arr, nid, real)
                        if needs_next_pass_ok([c.split("=", 1)[1] for c in cand]) or rng.random() < 0.1:
                            arr = cand
                            break
                    else:
                        op = "none"
                nid += 1
            if real:
                st = {"auto_rotation": auto, "max_iteration_count": rng.choice([None, None, None, 2, 3]), "units": list(arr)}
            else:
                st = {"auto_rotation": auto, "iterations": rng.choice([1, 1, 1, 2, 2, 3]), "units": list(arr)}
            # the sequence re-organised without changing the arrangement (part of it taken into a sub-sequence and flattened
            # again / a new sequence object made of the same units)
            rv = rng.random()
            if rv < 0.25 and arr:
                i0 = rng.randrange(0, len(arr))
                st["via"] = "flatten:%d-%d" % (i0, rng.randrange(i0, len(arr) + 1))
            elif rv < 0.32:
                st["via"] = "rebuild"
            hist["steps"].append(st)
            ctx.count(("real-history-edit:" if real else "history-edit:") + op)
            if st.get("via"):
                ctx.count(("real-history-via:" if real else "history-via:") + st["via"].partition(":")[0])
            h.arrange(arr, st.get("via"))
            run_, its = h.solve(auto, st.get("iterations", 1), st.get("max_iteration_count"))
            if run_ is None:
                ctx.count("real-history-solve-raised")
                hist["steps"].pop()
                break
            if j > 0 and sum(1 for k in h.kinds if k == "P") >= 2:
                nontriv = True
            ctx.count("history-iterations:" + str(min(its, 4)))
            for (k0, what) in judge_hist_step(w, spec, h, auto, run_):
                k = hist_key(j, its, k0)
                if k in seen_keys:
                    continue
                seen_keys.add(k)
                bad = {"in_profile_classifiers": sorted(cls0), "real": real, "steps": [dict(x) for x in hist["steps"]]}
                small = shrink_hist(w, spec, bad, k) if hist_fails(w, spec, bad, k) else bad
                report_hist(ctx, w, spec, small, k, what)
            if model:
                if j == 0:
                    lines.append("hreset")
                    expect.append(("ok", None))
                lines.append("auto " + ("1" if auto else "0"))
                expect.append(("ok", None))
                lines.append("hsolve %d %s %s" % (its - 1, cls_str(cls0), " ".join(h.slots())))
                expect.append(("hist", ({"in_profile_classifiers": sorted(cls0), "real": real,
                                         "steps": [dict(x) for x in hist["steps"]]}, run_, h.caches(), real)))
        ctx.case(["real-hist" if real else "hist", sorted(cls0), [(s_["auto_rotation"], s_["units"], s_.get("via")) for s_ in hist["steps"]]],
                 nontrivial=nontriv)
        ctx.count("stream:real-history" if real else "stream:history")
        del h


class Graph:
    """the real object graph below a sequence, written out for the Lean driver (`heap` line): every unit reachable through
    `subunits` gets a number (kept between two snapshots of the same objects), plus every object a `parent` points to"""

    def __init__(self, w):
        self.w, self.ids, self.keep = w, {}, []

    def num(self, u):
        if id(u) not in self.ids:
            self.ids[id(u)] = len(self.ids)
            self.keep.append(u)           # keeps the object alive: its id stays its own
        return self.ids[id(u)]

    def snapshot(self, top):
        w = self.w
        order = []

        def visit(u):
            self.num(u)
            order.append(u)
            for c in u.subunits:
                visit(c)
        visit(top)
        seen = {id(u) for u in order}
        for u in list(order):
            p = u.parent
            if p is not None and id(p) not in seen:       # a parent outside the sequence (e.g. a dissolved sub-sequence)
                seen.add(id(p))
                order.append(p)
        self.order = order
        toks = []
        for u in order:
            k = "P" if isinstance(u, w.BaseRollPass) else "R" if isinstance(u, w.Rotator) else \
                "T" if isinstance(u, w.Transport) else "O"
            p = u.parent
            toks.append("%d:%s:%d:%s:%s" % (self.num(u), k, isinstance(u, w.PassSequence), "-" if p is None else self.num(p),
                                            ".".join(str(self.num(c)) for c in u.subunits) or "-"))
        return "heap " + " ".join(toks)

    def parents(self):
        return " ".join("-" if u.parent is None else str(self.num(u.parent)) for u in self.order)


def graph_stream(ctx, w, data, lines, expect, n_cases):
    """(n) the object graph: `PassSequence.flatten` and the walk of `detect_already_rotated` as navigation over parents / member
    lists, model (`flatten`, `detectNav` of PyrollModel/RotNav.lean on the generated specs) vs the real objects"""
    rng = ctx.rng
    walk_fn = next((f for f in w.BaseRollPass.rotation.functions if f.name == data["walk"]["name"]), None)
    if walk_fn is None:
        ctx.tie_breaks.append(f"the walk {data['walk']['name']} read from the source is not registered on BaseRollPass.rotation at run time")
        return
    for _case in range(n_cases):
        n = rng.randrange(1, 8)
        wd = [rng.choice(["P", "P", "P", "T", "T", "R", "O"]) for _ in range(n)]
        toks = realise(rng, wd, SETTINGS_Q, True, pos_seed=_case, pipes=True, inner=0.5)
        route = random_route(rng, n, 0.75)
        auto = rng.random() < 0.85
        cls0 = rng.choice(CLS_POOL)
        rp = {"auto_rotation": auto, "in_profile_classifiers": sorted(cls0), "units": toks, "build": route}
        built = [w.build(t) for t in toks]
        kinds = [b[0] for b in built]
        g = Graph(w)
        if ":" in route:
            seq = nested(w, [b[1] for b in built], route)
            units = [b[1] for b in built]
            lines.append(g.snapshot(seq))
            expect.append(("ok", None))
            for _ in range(3):
                if not any(isinstance(u, w.PassSequence) for u in seq):
                    break
                seq.flatten()
                lines.append("flat %d" % g.num(seq))
                expect.append(("flat", (".".join(str(g.num(u)) for u in seq) or "-", g.parents(), rp)))
            if [id(u) for u in seq] != [id(u) for u in units]:
                raise ValueError(f"build route {route}: the sequence does not hold the listed units in the listed order")
        else:
            seq, units = assemble(w, [b[1] for b in built], route)
        run_ = drive(w, auto, cls0, kinds, units)         # transports / passes are solved: their disk elements exist now
        lines.append(g.snapshot(seq))
        expect.append(("ok", None))
        lines.append("auto " + ("1" if auto else "0"))
        expect.append(("ok", None))
        with w.switch(auto):
            for k, u in zip(kinds, units):
                if k != "P":
                    continue
                try:
                    v = walk_fn.function(u)
                    got = "t" if v is True else "f" if v is False else "none" if v is None else "?" + repr(v)
                except (ValueError, IndexError) as e:
                    if not _in_impl(e):
                        raise
                    got = "E:value" if isinstance(e, ValueError) else "E:index"
                lines.append("nav %d" % g.num(u))
                expect.append(("nav", (got, dict(rp, unit=units.index(u)))))
        ctx.case(["graph", auto, toks, route], nontrivial=kinds.count("P") >= 1 and n >= 2)
        ctx.count("stream:object-graph")
        del seq, run_


PRE_PATTERNS = ["iF", "Fi", "nF", "Fn", "mF", "Fm", "iFi", "nFi", "Fni", "iFn", "mFi", "inFim", "Fii", "iiF", "Fmn"]


def preprocessor_stream(ctx, w, spec, lines, expect, model, seen_keys):
    """(p) roll pass classes with further pre-processor factories before / after the inherited rotator_factory (as plug-ins
    register them), returning new profiles, the given profile, or None: the auto-rotator's output must arrive as in profile"""
    rng = ctx.rng
    mids = [[], ["T"], ["R:n90"], ["R:n45", "T"], ["O", "T"], ["R:u", "Tc"]]
    for pres in PRE_PATTERNS:
        for s in SETTINGS_Q:
            for auto in (True, False):
                mid = rng.choice(mids) if ctx.tier == "quick" and not ctx.extended else None
                for m in ([mid] if mid is not None else mids):
                    c1, c2 = rng.choice(CLS_POOL), rng.choice(CLS_POOL)
                    v = rng.choice(["s2", "s2", "s3"])
                    toks = [f"P:u:s2:{cls_str(c1)}"] + m + [f"P:{s}:{v}:{cls_str(c2)}:{pres}"]
                    if rng.random() < 0.3:
                        toks = [f"P:{rng.choice(SETTINGS_Q)}:s2:{cls_str(rng.choice(CLS_POOL))}:{rng.choice(PRE_PATTERNS)}"] + toks
                    cls0 = rng.choice(CLS_POOL)
                    route = random_route(rng, len(toks), 0.5) if rng.random() < 0.3 else "ctor"
                    kinds, units, mtoks, run_ = run_flow(w, auto, cls0, toks, route)
                    ctx.case([auto, sorted(cls0), toks, route], nontrivial=True)
                    ctx.count("stream:pre-processors")
                    ctx.count("pre-processors:" + pres)
                    errored = bool(run_) and run_[-1]["k"] == "E"
                    probs = list(oracle_pairs(w, spec, auto, toks, kinds, units, run_))
                    if errored:
                        probs.append(("flow-raises-" + run_[-1]["exc"], f"unit #{len(run_) - 1} raises {run_[-1]['exc']}: {run_[-1]['msg']}"))
                    for (k, what) in probs:
                        if k in seen_keys:
                            continue
                        seen_keys.add(k)
                        small, r2 = shrink(w, spec, auto, cls0, toks, k, route)
                        kinds2, units2, _, run2 = run_flow(w, auto, cls0, small, r2)
                        what2 = next((x for (kk, x) in oracle_pairs(w, spec, auto, small, kinds2, units2, run2) if kk == k), what)
                        _report(ctx, k, what2, auto, cls0, small, run2, r2)
                    if model:
                        slots = ["P#%d:%s" % (j, m_[2:]) if kd == "P" else m_ for j, (kd, m_) in enumerate(zip(kinds, mtoks))]
                        lines.append("hreset")
                        expect.append(("ok", None))
                        lines.append("auto " + ("1" if auto else "0"))
                        expect.append(("ok", None))
                        lines.append("hsolve 0 %s %s" % (cls_str(cls0), " ".join(slots)))
                        expect.append(("seq-pre", (auto, cls0, toks, run_, route)))


def run(ctx):
    import numpy as np
    rng = ctx.rng
    w = World()
    spec = RuleSpec(w)
    data = _data(ctx)
    model = getattr(ctx, "model_available", True) and data is not None
    lines = []           # model input
    expect = []          # (kind, payload) per model line
    if spec.unparsed:
        ctx.count("oracle:rule-name-unparsed", len(spec.unparsed))
        ctx.notes["rule_names_unparsed"] = spec.unparsed

    # ---- (a) translated rule functions vs the functions they came from; registration order -----------------------
    vocab_in = list(IN_VOCAB)
    vocab_next = list(NEXT_VOCAB)
    if data is not None:
        def atoms(c, acc):
            if c[0] == "inProfile":
                acc[0].add(c[1])
            elif c[0] == "nextPass":
                acc[1].add(c[1])
            elif c[0] in ("not", "and", "or"):
                for x in c[1:]:
                    atoms(x, acc)
        acc = (set(), set())
        for r in data["rules"]:
            for (c, a) in r["alts"]:
                atoms(c, acc)
        vocab_in = sorted(set(vocab_in) | acc[0])
        vocab_next = sorted(set(vocab_next) | acc[1])
        live = {f.name: f for f in w.Rotator.rotation.functions}
        src_names = [r["name"] for r in data["rules"]]
        if sorted(live) != sorted(src_names):
            ctx.tie_breaks.append(f"functions registered on Rotator.rotation at run time {sorted(live)} differ from the ones "
                                  f"in rotator/hookimpls.py {sorted(src_names)} (a plugin / another module registers rules)")
    subsets_in = [[v for j, v in enumerate(vocab_in) if m >> j & 1] for m in range(1 << len(vocab_in))]
    subsets_next = [[v for j, v in enumerate(vocab_next) if m >> j & 1] for m in range(1 << len(vocab_next))]
    if len(subsets_in) * len(subsets_next) > 4096:         # a much larger vocabulary: sample
        subsets_in = rng.sample(subsets_in, 64)
        subsets_next = rng.sample(subsets_next, 64)
    if data is not None:
        probe_pass = w.Stub2(roll=w.roll2, label="probe", gap=2e-3, c14_cls=set())
        probe_rot = w.Rotator(parent=probe_pass)
        probe_rot.in_profile = w.profile(0, [])
        bad = 0
        for r in data["rules"]:
            f = live.get(r["name"])
            if f is None:
                continue
            for ci in subsets_in:
                probe_rot.in_profile.classifiers = set(ci)
                for cn in subsets_next:
                    probe_pass.c14_cls = set(cn)
                    got = f.function(probe_rot)
                    exp = next((a for (c, a) in r["alts"] if c14_rot.eval_cond(c, ci, cn)), None)
                    if got != exp and bad < 3:
                        bad += 1
                        ctx.disagreement(f"translation of rule {r['name']} disagrees with the function",
                                         {"rule": r["name"], "in": ci, "next": cn, "function": got, "translated": exp})
            ctx.count("rule-fn-checked")
        if model:
            lines.append("rules")
            expect.append(("rules", [f.name for f in w.Rotator.rotation.functions]))

    # ---- (b) the rule table on every classifier combination: model vs real auto-rotator vs the rule names ---------------
    combos = [(ci, cn, []) for ci in subsets_in for cn in subsets_next]
    for _ in range(ctx.budget(40, 400)):
        combos.append((rng.choice(subsets_in) + rng.sample(["round", "rotated", "vertical", "hexagon", "xyz"], rng.randrange(1, 3)),
                       rng.choice(subsets_next) + rng.sample(["round", "symmetric", "generic_elongation", "abc"], rng.randrange(1, 3)), []))
    with w.switch(True), w.Spy(w) as spy:
        for (ci, cn, _) in combos:
            spy.log.clear()
            use3 = "3fold" in cn
            cn_eff = [c for c in cn if c != "3fold"]
            p = (w.Stub3(roll=w.roll3, label="P3", inscribed_circle_diameter=22e-3, c14_cls=set(cn_eff)) if use3
                 else w.Stub2(roll=w.roll2, label="P", gap=2e-3, c14_cls=set(cn_eff)))
            prof = w.profile(1, ci)
            replay_obj = {"in_profile_classifiers": sorted(ci), "pass_classifiers": sorted(p.classifiers),
                          "how": "stand-alone roll pass (stub with the given classifiers), rotation unset, init_solve(profile)"}
            try:
                p.init_solve(prof)
            except Exception as e:
                if not _in_impl(e):
                    raise
                ctx.violation("rule-lookup-raises", f"{type(e).__name__}: {e}", replay_obj)
                continue
            got = spy.log[0]["angle"] if len(spy.log) == 1 else None
            exp = spec.angle(set(ci), p.classifiers)
            nontriv = exp not in (None, 90)
            ctx.case(["rule", sorted(ci), sorted(p.classifiers)], nontrivial=nontriv)
            ctx.count("rule-angle:" + str(got))
            if len(spy.log) != 1:
                ctx.violation("rule-no-single-rotator", f"{len(spy.log)} auto-rotators for a stand-alone unset pass", replay_obj)
                continue
            if exp is not None and got != exp:
                ctx.violation("rule-angle-vs-name", f"rule-based rotation {got} for {sorted(ci)} -> {sorted(p.classifiers)}, "
                              f"the rule names promise {exp}", replay_obj)
            rec = spy.log[0]
            guarded(ctx, "the auto-rotator of a stand-alone pass", replay_obj,
                    lambda: [ctx.violation(k, what, replay_obj) for (k, what) in check_rotator_record(w, rec)])
            if model:
                lines.append(f"rule {cls_str(ci)} {cls_str(p.classifiers)}")
                expect.append(("rule", (got, replay_obj)))

    # ---- sequences ------------------------------------------------------------------------------------------------------
    cases = []          # (stream, auto, cls0, toks, build route)
    for (auto, cls0, toks) in CORPUS:
        cases.append(("corpus", auto, cls0, toks, "ctor"))
    for (auto, cls0, toks, route) in CORPUS_BUILT:
        cases.append(("corpus", auto, cls0, toks, route))
    # (c) all words of length <= 5: all passes unset x both switch values, plus the same word with drawn settings
    maxlen = 5
    n_word = 0
    for n in range(1, maxlen + 1):
        for wd in words(["P", "T", "R", "O"], n):
            n_word += 1
            for auto in (True, False):
                toks = realise(rng, wd, SETTINGS_Q, True, pos_seed=n_word)
                cases.append(("exh-unset", auto, CLS_POOL[n_word % len(CLS_POOL)], toks, "ctor"))
            # the same word once more: the sequence put together another way (list operations, sub-sequences + flatten(), a copy),
            # transports / plain units / passes with an inner structure of their own (disk elements, parts)
            toks = realise(rng, wd, SETTINGS_Q, True, pos_seed=n_word, pipes=True, inner=0.5)
            cases.append(("exh-built", n_word % 5 != 0, CLS_POOL[n_word % len(CLS_POOL)], toks, random_route(rng, n, 0.6)))
            if "P" in wd:
                reps = 3 if (ctx.tier == "thorough" or ctx.extended) else 1
                for _ in range(reps):
                    toks = realise(rng, wd, SETTINGS_X if ctx.tier == "thorough" else SETTINGS_Q, False,
                                   variants=("s2", "s2", "s3"), inner=0.2)
                    cases.append(("exh-settings", rng.random() < 0.7, rng.choice(CLS_POOL), toks,
                                  random_route(rng, n, 0.5) if rng.random() < 0.4 else "ctor"))
    # (d) random words of length <= 8
    for _ in range(ctx.budget(300, 15000)):
        n = rng.randrange(2, 9)
        wd = [rng.choice(["P", "P", "P", "T", "T", "R", "O"]) for _ in range(n)]
        toks = realise(rng, wd, SETTINGS_X, False, variants=("s2", "s2", "s3", "g=oval", "g=round", "g=box", "g=diamond",
                                                             "g=square", "g=swedish", "g3"), pipes=True, inner=0.25)
        cases.append(("random", rng.random() < 0.75, rng.choice(CLS_POOL), toks,
                      random_route(rng, n, 0.5) if rng.random() < 0.5 else "ctor"))

    seen_keys = set()

    def one_sequence(stream, auto, cls0, toks, route):
        kinds, units, mtoks, run_ = run_flow(w, auto, cls0, toks, route)
        npass = sum(1 for k in kinds if k == "P")
        ctx.case([auto, sorted(cls0), toks] + ([route] if route != "ctor" else []), nontrivial=npass >= 2)
        ctx.count("stream:" + stream)
        ctx.count("build:" + route.partition(":")[0])
        if any(simpler_token(t) is not None for t in toks):
            ctx.count("units-with-inner-structure")
        ctx.count("auto:" + ("on" if auto else "off"))
        for o in run_:
            if o["k"] == "P":
                ctx.count("pass-rotation:" + canon_rot(o["rotation"])[:1] + ("/auto-rotator" if o["spy"] else "/none"))
            elif o["k"] == "E":
                ctx.count("raises:" + o["exc"])
        if len(ctx.samples) < 3 and stream == "random" and npass >= 2:
            ctx.sample({"auto": auto, "cls0": cls0, "units": toks, "observed": show_run(run_)})
        errored = bool(run_) and run_[-1]["k"] == "E"
        # the only documented way to fail: a rule-based rotator that has no following pass (IndexError of next_of)
        ie = len(run_) - 1
        if errored and not (toks[ie] == "R:u" and not any(x.startswith("P:") for x in toks[ie + 1:])):
            key = "flow-raises-" + run_[-1]["exc"]
            if key not in seen_keys:
                seen_keys.add(key)
                _report(ctx, key, f"unit #{len(run_) - 1} raises {run_[-1]['exc']}: {run_[-1]['msg']}", auto, cls0, toks, run_, route)
        probs = oracle_pairs(w, spec, auto, toks, kinds, units, run_)
        for (k, what) in probs:
            if k in seen_keys:
                continue
            seen_keys.add(k)
            small, r2 = shrink(w, spec, auto, cls0, toks, k, route) if len(toks) > 2 else (toks, route)
            kinds2, units2, _, run2 = run_flow(w, auto, cls0, small, r2)
            what2 = next((x for (kk, x) in oracle_pairs(w, spec, auto, small, kinds2, units2, run2) if kk == k), what)
            _report(ctx, k, what2, auto, cls0, small, run2, r2)
        if model:
            lines.append("auto " + ("1" if auto else "0"))
            expect.append(("ok", None))
            lines.append("seq " + cls_str(cls0) + " " + " ".join(mtoks))
            expect.append(("seq", (auto, cls0, toks, run_, route)))

    for (stream, auto, cls0, toks, route) in cases:
        guarded(ctx, "a flat sequence", {"auto_rotation": auto, "in_profile_classifiers": sorted(cls0), "units": toks, "build": route},
                lambda: one_sequence(stream, auto, cls0, toks, route))

    # ---- (p) further pre-processors on the pass class -----------------------------------------------------------------
    guarded(ctx, "pre-processor scenarios", {}, lambda: preprocessor_stream(ctx, w, spec, lines, expect, model, seen_keys))

    # ---- (h) histories: solve, edit the same sequence, solve again ------------------------------------------------------
    for hist in CORPUS_HIST:
        def one_corpus(hist=hist):
            res = exec_hist(w, spec, hist)
            ctx.case(["hist-corpus", hist["steps"]], nontrivial=True)
            ctx.count("stream:history-corpus")
            for (k, what) in res[-1][2] if len(res) == len(hist["steps"]) else []:
                if k not in seen_keys:
                    seen_keys.add(k)
                    report_hist(ctx, w, spec, hist, k, what)
        guarded(ctx, "a corpus history", hist, one_corpus)
    guarded(ctx, "histories (marker flows)", {},
            lambda: history_stream(ctx, w, spec, lines, expect, model, seen_keys, ctx.budget(250, 6000)))
    guarded(ctx, "histories (real solves)", {},
            lambda: history_stream(ctx, w, spec, lines, expect, model, seen_keys, ctx.budget(40, 1200), real=True))

    # ---- (e) real PassSequence.solve runs (end to end, the sequence iterates until it converges) -----------------------
    guarded(ctx, "real solves", {}, lambda: real_solve_stream(ctx, w, spec, lines, expect, model))

    # ---- (f) stand-alone passes ----------------------------------------------------------------------------------------
    def solo_case(auto, s, variant, c):
        cls0 = rng.choice(CLS_POOL)
        _, p, mtok = w.build(f"P:{s}:{variant}:{cls_str(c)}")
        rp = {"auto_rotation": auto, "pass": f"P:{s}:{variant}:{cls_str(c)}", "in_profile_classifiers": sorted(cls0),
              "how": "stand-alone roll pass (no parent), init_solve(profile)"}
        with w.switch(auto), w.Spy(w) as spy:
            try:
                p.init_solve(w.profile(0, cls0))
            except Exception as e:
                if not _in_impl(e):
                    raise
                ctx.violation("solo-entry-raises", f"{type(e).__name__}: {e}", rp)
                return
            log = list(spy.log)
        ring0 = np.array(w.profile(0, cls0).cross_section.exterior.coords)
        turn, congr = w.measure(ring0, np.array(p.in_profile.cross_section.exterior.coords))
        o = {"k": "P", "rotation": p.rotation, "in_cls": set(p.in_profile.classifiers), "turn": turn,
             "congruent": congr, "spy": log, "out_cls": set()}
        ctx.case(["solo", auto, s, variant], nontrivial=False)
        ctx.count("stream:solo")
        setting = parse_setting(s)
        entry = auto if setting is None else (bool(setting))
        if len(log) != (1 if entry else 0):
            ctx.violation("solo-entry-rotation", f"{len(log)} entry rotation(s), expected {1 if entry else 0}", rp)
        for r in log:
            for (k, what) in check_rotator_record(w, r):
                ctx.violation(k, what, rp)
        if model:
            lines.append("auto " + ("1" if auto else "0"))
            expect.append(("ok", None))
            lines.append("solo %s %s %s" % (cls_str(cls0), mtok.split(":")[1], mtok.split(":")[2]))
            expect.append(("solo", (o, rp)))

    for auto in (True, False):
        for s in SETTINGS_X:
            for variant, c in (("s2", ["oval"]), ("s3", ["round"]), ("s2", ["flat"])):
                guarded(ctx, "a stand-alone pass", {"auto_rotation": auto, "pass": f"P:{s}:{variant}:{cls_str(c)}"},
                        lambda: solo_case(auto, s, variant, c))

    # ---- (g) rings through a real rotator vs the model's rotation; successive rotations add up -----------------------
    for i in range(ctx.budget(60, 1500)):
        n = rng.randrange(3, 9)
        sc = math.exp(rng.uniform(-7, 0))
        pts = []
        for k in range(n):
            a = 2 * math.pi * (k + rng.uniform(-0.3, 0.3)) / n
            rad = sc * rng.uniform(0.4, 1.0)
            pts.append((rad * math.cos(a), rad * math.sin(a)))
        poly = w.Polygon(pts)
        if not poly.is_valid or poly.area <= 0:
            continue
        th = rng.choice([90, 45, 180, 0, 33.3, -90, 360, 270, rng.uniform(-720, 720), rng.uniform(-1, 1), 1e-9, 89.99999999])
        th2 = rng.choice([90, 45, 33.3, rng.uniform(-360, 360)])
        prof = w.Profile(cross_section=poly, classifiers={"x"}, temperature=1400.0, strain=0.0, length=1.0, t=0.0,
                         density=7.5e3, specific_heat_capacity=690.0, flow_stress=1e8, material="steel")
        rp = {"ring": [list(c) for c in poly.exterior.coords], "angle": th, "second_angle": th2,
              "how": "Rotator(rotation=angle).solve(Profile(cross_section=Polygon(ring)))"}
        ctx.case(["ring", n, round(sc, 9), th], nontrivial=(th % 360) != 0)
        ctx.count("stream:ring")
        with w.Spy(w) as spy:
            try:
                o1 = w.Rotator(rotation=th).solve(prof)
                o2 = w.Rotator(rotation=th2).solve(o1)
                o12 = w.Rotator(rotation=th + th2).solve(prof)
            except Exception as e:
                if not _in_impl(e):
                    raise
                ctx.violation("rotator-raises", f"{type(e).__name__}: {e}", rp)
                continue
            log = list(spy.log)
        def ring_judge():
            for r in log:
                for (k, what) in check_rotator_record(w, r):
                    ctx.violation(k, what, rp)
            a2 = np.array(o2.cross_section.exterior.coords)
            a12 = np.array(o12.cross_section.exterior.coords)
            if a2.shape != a12.shape or np.abs(a2 - a12).max() > 1e-12 * sc * 8 * (1 + abs(th) / 360 + abs(th2) / 360):
                ctx.violation("rotations-do-not-add-up", f"rotate({th}) then rotate({th2}) differs from rotate({th + th2})", rp)
            if model:
                ring = np.array(poly.exterior.coords)
                lines.append("rot " + bits(th) + " " + " ".join(bits(v) for xy in ring for v in xy))
                expect.append(("rot", (np.array(o1.cross_section.exterior.coords), o1.cross_section.area, o1.cross_section.length,
                                       poly.area, poly.length, sc, rp)))
        guarded(ctx, "a ring through a rotator", rp, ring_judge)

    # ---- (n) the object graph: flatten and the walk as navigation, model vs real objects -------------------------------
    if model:
        guarded(ctx, "object graphs", {}, lambda: graph_stream(ctx, w, data, lines, expect, ctx.budget(150, 3000)))

    # ---- information only: nested sequences (outside the quantifier) -----------------------------------------------------
    guarded(ctx, "nested sequences (information only)", {}, lambda: nested_info(ctx, w))

    # ---- model side -------------------------------------------------------------------------------------------------------
    if model:
        out = ctx.lean_model(MODEL, lines)
        if len(out) != len(lines):
            ctx.disagreement("model output length mismatch", {"expected": len(lines), "got": len(out)})
            return
        ndis = 0
        for (kind, pay), ln, inp in zip(expect, out, lines):
            bad = None
            if kind == "ok":
                continue
            if ln.strip() == "bad-op":
                raise InfraError(f"the Lean driver does not understand the line: {inp}")
            if kind == "rules":
                if ln.split(",") != pay:
                    bad = (f"evaluation order of the rules: translated {ln}, live hook {','.join(pay)}", {"model": ln, "impl": pay})
            elif kind == "rule":
                got, rp = pay
                if ln != str(got):
                    bad = (f"rule table: model {ln}, implementation {got}", dict(rp, model=ln, impl=got))
            elif kind in ("seq", "seq-blind"):
                auto, cls0, toks, run_, route = pay
                why = compare_with_model(run_, ln, blind_auto=(kind == "seq-blind"))
                if why:
                    bad = (why, {"auto_rotation": auto, "in_profile_classifiers": sorted(cls0), "units": toks, "build": route,
                                 "impl": show_run(run_), "model": ln})
            elif kind == "seq-pre":
                auto, cls0, toks, run_, route = pay
                why = compare_with_model(run_, ln.partition(" | ")[0])
                if why:
                    bad = ("pass class with further pre-processors: " + why,
                           {"auto_rotation": auto, "in_profile_classifiers": sorted(cls0), "units": toks, "build": route,
                            "impl": show_run(run_), "model": ln})
            elif kind == "hist":
                hist, run_, caches, real = pay
                left, _, right = ln.partition(" | ")
                why = compare_with_model(run_, left, blind_auto=real, blind_rotation=real)
                if not why and not (run_ and run_[-1]["k"] == "E") and right.strip() != caches:
                    why = f"cached `rotation` of the passes after the solve: model {right.strip()}, implementation {caches}"
                if why:
                    bad = ("history (last step): " + why, dict(hist, impl=show_run(run_), model=ln, how=HIST_HOW))
            elif kind == "flat":
                members, parents, rp = pay
                if [x.strip() for x in ln.split("|")] != [members, parents]:
                    bad = (f"PassSequence.flatten on the object graph: model members | parents = {ln}, implementation {members} | {parents}",
                           dict(rp, model=ln, impl=members + " | " + parents, what="members of the flattened sequence | parent of "
                                "every unit (numbered in the order of a walk through `subunits`, the sequence itself = 0)"))
            elif kind == "nav":
                got, rp = pay
                if ln.strip() != got:
                    bad = (f"detect_already_rotated on the object graph: model {ln.strip()}, implementation {got}",
                           dict(rp, model=ln.strip(), impl=got))
            elif kind == "solo":
                o, rp = pay
                why = compare_with_model([o], ln)
                if why:
                    bad = ("stand-alone pass: " + why, dict(rp, model=ln, impl=show_run([o])))
            elif kind == "rot":
                ring_out, a_out, l_out, a_in, l_in, sc, rp = pay
                left, right = ln.split("|")
                vals = [unbits(x) for x in left.split()]
                m = np.array(vals).reshape(-1, 2)
                ar = [unbits(x) for x in right.split()]
                if m.shape != ring_out.shape or np.abs(m - ring_out).max() > TOL_COORD * 4 * np.abs(ring_out).max():
                    bad = ("rotated ring: model and Rotator.OutProfile.cross_section differ", dict(rp, model=m.tolist()))
                elif abs(ar[0] - a_out) > 1e-11 * a_in or abs(ar[2] - a_in) > 1e-11 * a_in \
                        or abs(ar[1] - l_out) > 1e-11 * l_in or abs(ar[3] - l_in) > 1e-11 * l_in:
                    bad = ("area/perimeter: model's shoelace/edge sum and shapely differ", dict(rp, model=ar,
                                                                                              impl=[a_out, l_out, a_in, l_in]))
            if bad is None:
                ctx.validated()
            else:
                ndis += 1
                if ndis <= 5:
                    ctx.disagreement(bad[0], bad[1])


def real_solve_stream(ctx, w, spec, lines, expect, model):
    """flat sequences of REAL roll passes solved by the real PassSequence.solve; observed afterwards on the units"""
    from .common import make_pass, make_in_profile
    rng = ctx.rng
    for _ in range(ctx.budget(25, 1000)):
        auto = rng.random() < 0.8
        npass = rng.randrange(2, 4)
        toks = []
        units = []
        kinds = []
        for k in range(npass):
            kind = "oval" if k % 2 == 0 else "round"
            s = "u" if (k == 0 or rng.random() < 0.6) else rng.choice(["t", "n90", "n90.0", "f", "n0", "n45"])
            sv = parse_setting(s)
            kw = {} if sv is None else {"rotation": sv}
            disks = rng.randrange(1, 4) if rng.random() < 0.15 else 0
            if disks:
                kw["disk_element_count"] = disks
            p, _k = make_pass(rng, kind=kind, scale=0.92 ** k, **kw)
            if k > 0:
                for _j in range(rng.randrange(0, 4)):
                    a = rng.choice(["T", "T", "R", "O", "Tc"])
                    if a == "R":
                        tk = "R:" + rng.choice(["n90", "n90", "u", "n-90", "n270"])
                    elif rng.random() < 0.35:      # a transport subdivided into disk elements / a plain unit made of parts
                        tk = a + ":" + str(rng.randrange(1, 5))
                    else:
                        tk = a
                    kd, u, _m = w.build(tk)
                    toks.append(tk)
                    units.append(u)
                    kinds.append(kd)
            toks.append(f"P:{s}:g={kind}" + (f"~{disks}" if disks else ""))
            units.append(p)
            kinds.append("P")
        ip = make_in_profile(rng, "round", size=30e-3)
        route = random_route(rng, len(units), 0.6) if rng.random() < 0.5 else "ctor"
        seq, units = assemble(w, units, route)
        ctx.count("stream:real-solve")
        ctx.count("real-solve-build:" + route.partition(":")[0])
        try:
            with w.switch(auto):
                seq.solve(ip)
        except Exception as e:
            if not _in_impl(e):
                raise
            ctx.count("real-solve-raised:" + type(e.__cause__ or e).__name__)
            continue
        ctx.case(["real", auto, toks] + ([route] if route != "ctor" else []), nontrivial=True)
        rp = {"auto_rotation": auto, "units": toks, "build": route, "in_profile": "Profile.round(diameter=30e-3)",
              "how": "real PassSequence of the listed units, put together as `build` says (see driver/props/c14.py assemble), "
                     ".solve(in_profile); passes from driver/props/common.make_pass (oval/round alternating)"}

        def judge():
            run_ = observe_solved(w, seq, kinds, units)
            rp["observed"] = show_run(run_)
            for (k, what) in judge_solved(spec, auto, toks, kinds, units, run_):
                ctx.violation(k, what, rp)
            return run_
        run_ = guarded(ctx, "a really solved sequence", rp, judge)
        if model and run_ is not None:
            mtoks = []
            for tk, kd, u in zip(toks, kinds, units):
                if kd == "P":
                    mtoks.append("P:%s:%s" % (model_setting(tk.split(":")[1]), cls_str(u.classifiers)))
                elif kd == "R":
                    mtoks.append("R:u" if tk == "R:u" else "R:n" + bits(parse_setting(tk.split(":")[1])))
                else:
                    mtoks.append("T" if kd == "T" else "O")
            lines.append("auto " + ("1" if auto else "0"))
            expect.append(("ok", None))
            lines.append("seq round " + " ".join(mtoks))
            expect.append(("seq-blind", (auto, ["round"], toks, run_, route)))


def nested_info(ctx, w):
    """nested sequences are outside the property's quantifier ('within one pass sequence'); record what happens"""
    import numpy as np
    info = {}
    for name, build in (
            ("rotator-inside-nested-sequence-before-pass", lambda: [("P", "oval"), ("SEQ", [("R", 90)]), ("P", "round")]),
            ("pass-first-in-nested-sequence-after-rotator", lambda: [("P", "oval"), ("R", 90), ("SEQ", [("P", "round")])]),
            ("pass-first-in-nested-sequence-no-rotator", lambda: [("P", "oval"), ("T",), ("SEQ", [("P", "round")])])):
        passes = []

        def mk(item):
            if item[0] == "P":
                p = w.Stub2(roll=w.roll2, label="P", gap=2e-3, c14_cls={item[1]})
                passes.append(p)
                return p
            if item[0] == "R":
                return w.Rotator(rotation=item[1])
            if item[0] == "T":
                return w.Transport(duration=1)
            return w.PassSequence([mk(x) for x in item[1]])
        top = w.PassSequence([mk(x) for x in build()])
        n_rot = 0
        with w.switch(True), w.Spy(w) as spy:
            prof = w.profile(0, ["round"])

            def flow(seq, prof):
                for u in seq:
                    if isinstance(u, w.PassSequence):
                        prof = flow(u, prof)
                    elif isinstance(u, w.BaseRollPass):
                        if u is passes[-1]:
                            spy.log_before = len(spy.log)
                        u.init_solve(prof)
                        prof = w.profile(1, u.classifiers)
                        if u is passes[0]:
                            spy.log.clear()
                    else:
                        prof = u.solve(prof)
                return prof
            flow(top, prof)
            n_rot = len(spy.log)
        info[name] = f"{n_rot} rotator(s) act between the two passes; second pass rotation={passes[-1].rotation!r}"
    ctx.notes["nested_sequences_information_only"] = info


def replay(ctx, data):
    r = data.get("replay", data)
    w = World()
    spec = RuleSpec(w)
    if "steps" in r:
        hist = {k: r[k] for k in ("in_profile_classifiers", "real", "steps") if k in r}
        res = exec_hist(w, spec, hist)
        if len(res) == len(hist["steps"]):
            for (k, what) in res[-1][2]:
                report_hist(ctx, w, spec, hist, k, what)
    elif "units" in r and "in_profile_classifiers" in r:
        auto, cls0, toks, route = r["auto_rotation"], r["in_profile_classifiers"], r["units"], r.get("build", "ctor")
        kinds, units, _, run_ = run_flow(w, auto, cls0, toks, route)
        for (k, what) in oracle_pairs(w, spec, auto, toks, kinds, units, run_):
            _report(ctx, k, what, auto, cls0, toks, run_, route)
        if run_ and run_[-1]["k"] == "E" and needs_next_pass_ok(toks):
            _report(ctx, "flow-raises-" + run_[-1]["exc"], run_[-1]["msg"], auto, cls0, toks, run_, route)
    elif "pass_classifiers" in r:
        with w.switch(True), w.Spy(w) as spy:
            cn = set(r["pass_classifiers"])
            p = (w.Stub3(roll=w.roll3, label="P3", inscribed_circle_diameter=22e-3, c14_cls=cn - {"3fold"}) if "3fold" in cn
                 else w.Stub2(roll=w.roll2, label="P", gap=2e-3, c14_cls=cn))
            p.init_solve(w.profile(1, r["in_profile_classifiers"]))
            exp = spec.angle(set(r["in_profile_classifiers"]), p.classifiers)
            got = spy.log[0]["angle"] if spy.log else None
            if exp is not None and got != exp:
                ctx.violation(data.get("key", "rule-angle-vs-name"), f"rule-based rotation {got}, the rule names promise {exp}", r)
            for rec in spy.log:
                for (k, what) in check_rotator_record(w, rec):
                    ctx.violation(k, what, r)
    elif "ring" in r:
        prof = w.Profile(cross_section=w.Polygon(r["ring"]), classifiers={"x"}, temperature=1400.0, strain=0.0, length=1.0,
                         t=0.0, density=7.5e3, specific_heat_capacity=690.0, flow_stress=1e8, material="steel")
        with w.Spy(w) as spy:
            w.Rotator(rotation=r["angle"]).solve(prof)
            for rec in spy.log:
                for (k, what) in check_rotator_record(w, rec):
                    ctx.violation(k, what, r)
