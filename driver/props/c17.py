"""C17 - derived profile, stress and deformation quantities obey their identities.

Tie: T (the hook implementations are re-translated to Lean on every run -> lean/PyrollModel/Gen/C17.lean: one `Impl` with
ALL guarded alternatives per source item; the theorems of lean/PyrollProps/C17.lean are re-checked against them, the
`..._every_alt` / `..._single_alt` theorems quantify over every alternative; the GEOMETRIC items - the chord methods
`Profile.local_height/local_width`, `shapes.rectangle`, the extents of geometries, the arguments of the default
`equivalent_rectangle` - go to Gen/C17Geo.lean (driver/translate/c17_geo.py) with the theorems of PyrollProps/C17Geo.lean:
chords depend on the current hook values only, are chords of the cross-section, bounded, zero outside, integrate to the
area; the default rectangle polygon has the profile's area and ratio) + K (each generated formula AND each alternative is
evaluated over Float by the Lean driver and compared with the python function it came from, driven into the alternative by
a stub satisfying its path condition; the geometry terms are interpreted with shapely by an independent evaluator and
compared with the real methods on real profiles, rectangle corners / bounds / extents / shoelace area over Float with the
real `rectangle(w, h)`).
Oracle (from the statement, on the real code): identities on real Profile objects (stresses at every level / unit, values
or hook functions; width / height given instead of derived); thermal identities on fresh Roll and Profile objects under
every read order of the two derived values (hook values are cached: the order matters); coefficient links on solved
passes, on solved passes with overridden / explicit draught, spread, elongation (as spreading plug-ins do), with an
equivalent rectangle / width / height supplied by hook functions on the pass's profile classes or explicitly on the
profiles, and on unsolved passes with real in/out profiles and explicitly supplied values; USED objects: a profile that is
sampled, given another cross-section / scaled / copied / rebuilt and sampled again (also at the earlier positions), a pass
that is solved, changed (gap, incoming profile) and solved again - chords and coefficient links after every step.
"""
import math

from ..translate import gen, c17_alts, c17_geo
from .. import stub

ID = "C17"
LEAN_MODULES = ["PyrollProps.C17", "PyrollProps.C17Geo"]
MODEL = "c17"
MODEL_MODULES = ["PyrollModel.Gen.C17", "PyrollModel.Gen.C17Geo", "PyrollModel.EvalDriver"]
RULE = ("(a) every translated formula and every guarded alternative x random positive environments, Lean Float evaluation vs "
        "the python function (driven into the alternative by a stub satisfying its path condition); the translated chord "
        "methods / rectangle / extents vs the real methods on real profiles and polygons; "
        "(b) stand-alone real Profile objects with random principal stresses / material data / shapes, derived hooks read in a "
        "random order, and the identities of the property checked directly; (b3) the same with width / height assigned; "
        "(c) chords of random convex and non-convex polygons: compared with the chord of the cross-section itself (shrunk / "
        "grown by 1e-9 of the size), bounded, zero outside, integrated numerically; (c2) thermal identities on fresh Roll and "
        "Profile objects for material triples over several decades x every read order of the two derived values (incl. cache "
        "re-evaluation, one value supplied explicitly, constants supplied by hook functions); (c3) stress triples at levels "
        "1e-3 .. 3e9 (general, hydrostatic, uniaxial, nearly hydrostatic, two equal), values or hook functions; "
        "(d) solved roll passes; (e) solved two-/three-roll passes whose draught/spread/elongation is overridden by an extra "
        "hook implementation on a throw-away subclass or an explicit value, and/or whose in / out profile classes get an "
        "equivalent_rectangle / equivalent_width / equivalent_height hook function, and unsolved passes with real in/out "
        "profiles (draught below and above 1; explicit rectangle / sides on the profiles) and explicitly supplied coefficient "
        "values: every link between the 13 coefficient hooks, read in a random order; (f) histories: profile sampled / new "
        "cross-section / scaled / re-evaluated / deep-copied / rebuilt / sampled again, pass solved 2-3 times with another gap "
        "or incoming profile, incoming profile sampled before it is handed to solve. non-trivial = the case has all-different "
        "non-zero inputs resp. a state-changing operation; distinct by rounded input tuple.")
ASSUMPTIONS = [
    "IEEE rounding: identities are theorems over the reals; on floats they are checked with rtol 1e-9",
    "shapely is a parameter of the chord / rectangle theorems: `buffer` is an arbitrary function (the theorems ask for "
    "cross-section <= buffer(cross-section) <= T), `intersection` is set intersection, `.length` the 1-dimensional Hausdorff "
    "measure, `bounds` / `area` of a polygon the coordinate ranges / shoelace sum of its corners, `Polygon(points)` the corner "
    "list; on the real geometry the chord clauses are checked numerically",
    "the cross-section lies within |y| <= height, |z| <= width (reach of the probing line of local_height / local_width): "
    "explicit hypothesis of the chord theorems, true for sections centred on the origin",
]

P = "profile/hookimpls.py"
D = "roll_pass/hookimpls/deformation_unit.py"
R = "roll/hookimpls.py"
SELECTION = [
    ("equivalent_height", P, "equivalent_height"),
    ("equivalent_width", P, "equivalent_width"),
    ("equivalent_radius", P, "equivalent_radius"),
    ("hydrostatic_stress", P, "hydrostatic_stress"),
    ("equivalent_stress", P, "equivalent_stress"),
    ("thermal_diffusivity", P, "thermal_diffusivity"),
    ("heat_penetration_number", P, "heat_penetration_number"),
    ("roll_thermal_diffusivity", R, "thermal_diffusivity"),
    ("roll_heat_penetration_number", R, "heat_penetration_number"),
    ("draught", D, "draught"), ("spread", D, "spread"), ("elongation", D, "elongation"),
    ("log_draught", D, "log_draught"), ("log_spread", D, "log_spread"), ("log_elongation", D, "log_elongation"),
    ("abs_draught", D, "abs_draught"), ("abs_spread", D, "abs_spread"), ("abs_elongation", D, "abs_elongation"),
    ("rel_draught", D, "rel_draught"), ("rel_spread", D, "rel_spread"), ("rel_elongation", D, "rel_elongation"),
    ("strain", D, "strain"),
]


# which theorems of PyrollProps/C17.lean speak about which translated source item (for the tie-break message)
OBLIGATIONS = {
    "equivalent_height": ["eq_rect_area", "eq_rect_ratio", "rectangle_single_alt"],
    "equivalent_width": ["eq_rect_area", "eq_rect_ratio", "rectangle_single_alt"],
    "equivalent_radius": ["eq_radius_area", "rectangle_single_alt"],
    "hydrostatic_stress": ["hydrostatic_mean", "hydrostatic_every_alt"],
    "equivalent_stress": ["von_mises_value", "von_mises_perm", "von_mises_hydrostatic_zero", "von_mises_uniaxial",
                          "von_mises_every_alt"],
    "thermal_diffusivity": ["diffusivity_identity", "diffusivity_every_alt", "thermal_mutual_every_alt"],
    "heat_penetration_number": ["penetration_identity", "penetration_every_alt", "thermal_mutual_every_alt"],
    "roll_thermal_diffusivity": ["roll_diffusivity_identity", "roll_diffusivity_every_alt", "roll_thermal_mutual_every_alt"],
    "roll_heat_penetration_number": ["roll_penetration_identity", "roll_penetration_every_alt",
                                     "roll_thermal_mutual_every_alt"],
    "strain": ["strain_def", "strain_every_alt"],
}
for _q in ("draught", "spread", "elongation"):
    OBLIGATIONS[_q] = ["draught_is_ratio", "coefficients_single_alt", "coefficients_multiply_to_one", "log_sum_zero"]
    OBLIGATIONS["log_" + _q] = ["log_coefficients", "coefficients_single_alt"]
    OBLIGATIONS["abs_" + _q] = ["rel_%s_consistent" % _q, "coefficients_single_alt"]
    OBLIGATIONS["rel_" + _q] = ["rel_%s_consistent" % _q, "coefficients_single_alt"]


def translate(ctx):
    baseline = c17_alts.baseline_text(ID)
    ctx.found = gen.emit_impl_module(ctx, ID, SELECTION, extra_text=c17_alts.impls_table_text(SELECTION))
    # remembered for run(): named in the tie-break message if an obligation no longer builds
    ctx.c17_changed = c17_alts.changed_items(ID, SELECTION, ctx.found, baseline, OBLIGATIONS)
    if ctx.c17_changed:
        ctx.notes["source_items_changed_since_committed_translation"] = ctx.c17_changed
    # the geometric items: chord methods, shapes.rectangle, extents of geometries, equivalent_rectangle -> Gen/C17Geo.lean
    ctx.c17_geo = c17_geo.emit(ctx)


def _sampler(rng, var):
    return math.exp(rng.uniform(-3, 3))


def _profiles(ctx, n):
    from pyroll.core import Profile
    rng = ctx.rng
    for i in range(n):
        kind = rng.choice(["round", "square", "box", "diamond"])
        s = math.exp(rng.uniform(-6, 1))
        kw = dict(longitudinal_stress=rng.uniform(-500, 500), altitudinal_stress=rng.uniform(-500, 500),
                  latitudinal_stress=rng.uniform(-500, 500), thermal_conductivity=math.exp(rng.uniform(0, 5)),
                  density=math.exp(rng.uniform(5, 10)), specific_heat_capacity=math.exp(rng.uniform(4, 8)))
        mode = rng.random()
        if mode < 0.15:
            v = kw["longitudinal_stress"]
            kw["altitudinal_stress"] = kw["latitudinal_stress"] = v          # hydrostatic
        elif mode < 0.35:
            ax = rng.choice(["longitudinal_stress", "altitudinal_stress", "latitudinal_stress"])
            for k in ("longitudinal_stress", "altitudinal_stress", "latitudinal_stress"):
                if k != ax:
                    kw[k] = 0.0                                              # uniaxial
        if kind == "round":
            args = dict(radius=s)
        elif kind == "square":
            args = dict(side=s, corner_radius=s * rng.uniform(0, 0.2))
        elif kind == "box":
            args = dict(height=s, width=s * rng.uniform(0.3, 3), corner_radius=s * rng.uniform(0, 0.1))
        else:
            args = dict(height=s, width=s * rng.uniform(0.5, 3), corner_radius=s * rng.uniform(0, 0.1))
        try:
            p = getattr(Profile, kind)(**args, **kw)
        except Exception:
            continue
        yield kind, args, kw, mode, p


def _trapz(y, x):
    return float(((y[1:] + y[:-1]) / 2 * (x[1:] - x[:-1])).sum())


def _rel(a, b):
    return abs(a - b) / max(abs(a), abs(b), 1e-300)


def _impl_raised(ex):
    """was the exception raised from inside the package under test? (otherwise it is a bug of this harness)"""
    import traceback
    return any("/pyroll/" in f.filename for f in traceback.extract_tb(ex.__traceback__))


# ---- thermal quantities: a = k/(rho c), b = sqrt(k rho c) on real objects, EVERY read order --------------------
# Hook values are cached on first read, so an implementation may take a different path depending on what was read
# before. Each mode is executed on a FRESH object. "reeval" = HookHost.reevaluate_cache() (what Unit.solve does between
# iterations); "set-a"/"set-b" = the value is supplied explicitly to the constructor (consistent with the triple) and the
# other one is read.
THERMAL_MODES = [
    ("a",), ("b",), ("a", "b"), ("b", "a"), ("a", "b", "a"), ("b", "a", "b"),
    ("b", "reeval", "a", "b"), ("a", "reeval", "b", "a"), ("b", "a", "reeval", "a", "b"),
    ("set-b", "a"), ("set-a", "b"), ("set-b", "a", "b"), ("set-a", "b", "a"),
]
THERMAL_CORPUS = [(23.0, 7500.0, 690.0), (50.0, 7850.0, 460.0), (0.5, 2.0, 3.0), (401.0, 8960.0, 385.0)]


def _thermal_problems(spec):
    """the thermal identities of the statement on one fresh object; spec = {host, k, rho, c, order} -> [(key, what)]"""
    from pyroll.core import Roll, BoxGroove
    from pyroll.core.profile.profile import RoundProfile
    host, lam, rho, c, order = spec["host"], spec["k"], spec["rho"], spec["c"], spec["order"]
    kw = dict(thermal_conductivity=lam, density=rho, specific_heat_capacity=c)
    if "set-a" in order:
        kw["thermal_diffusivity"] = lam / (rho * c)
    if "set-b" in order:
        kw["heat_penetration_number"] = math.sqrt(lam * rho * c)
    rcls, pcls = Roll, RoundProfile
    if spec.get("via") == "hooks":
        # the three material constants come from hook functions (as a material data base plug-in supplies them) instead
        # of constructor values; registered on a throw-away subclass, nothing to undo on the core classes
        rcls, pcls = type("C17Roll", (Roll,), {}), type("C17RoundProfile", (RoundProfile,), {})
        for n in ("thermal_conductivity", "density", "specific_heat_capacity"):
            v = kw.pop(n)
            for cls in (rcls, pcls):
                getattr(cls, n)(lambda self, v=v: v)
    if host == "roll":
        obj = rcls(groove=BoxGroove(r1=1e-3, r2=2e-3, depth=5e-3, usable_width=20e-3, ground_width=15e-3),
                   nominal_radius=0.1, **kw)
    else:
        obj = pcls(radius=0.01, **kw)
    reads = {"a": [], "b": []}
    try:
        for step in order:
            if step == "a":
                reads["a"].append(float(obj.thermal_diffusivity))
            elif step == "b":
                reads["b"].append(float(obj.heat_penetration_number))
            elif step == "reeval":
                obj.reevaluate_cache()
    except Exception as ex:
        if _impl_raised(ex):
            return [(f"{host}-thermal-hook-raises", f"{type(ex).__name__}: {ex}")]
        raise
    probs = []
    tol = 1e-9   # each identity is a handful of float operations on positive numbers: error of a few ulp
    for a in reads["a"]:
        if _rel(a * rho * c, lam) > tol:
            probs.append((f"{host}-thermal-diffusivity", f"read order {'/'.join(order)}: thermal_diffusivity={a!r}, "
                          f"a*rho*c={a * rho * c!r} != conductivity {lam!r}"))
    for b in reads["b"]:
        if _rel(b * b, lam * rho * c) > tol:
            probs.append((f"{host}-heat-penetration", f"read order {'/'.join(order)}: heat_penetration_number={b!r}, "
                          f"b^2={b * b!r} != k*rho*c={lam * rho * c!r}"))
    if reads["a"] and reads["b"] and reads["a"][-1] > 0:
        a, b = reads["a"][-1], reads["b"][-1]
        if _rel(b, lam / math.sqrt(a)) > tol:
            probs.append((f"{host}-thermal-mutual", f"read order {'/'.join(order)}: b={b!r} != k/sqrt(a)={lam / math.sqrt(a)!r}"))
    return probs


def _run_thermal(ctx):
    rng = ctx.rng
    triples = list(THERMAL_CORPUS)
    for _ in range(ctx.budget(10, 300)):
        # several decades each; rho*c far from 1 in general (the identities are scale-free)
        triples.append((10 ** rng.uniform(-2, 3), 10 ** rng.uniform(-1, 4.5), 10 ** rng.uniform(-1, 4)))
    for it, (lam, rho, c) in enumerate(triples):
        for host in ("roll", "profile"):
            for order in THERMAL_MODES:
                spec = {"host": host, "k": lam, "rho": rho, "c": c, "order": list(order),
                        "via": "hooks" if it % 3 == 2 else "kwargs"}
                ctx.case(["thermal", host, spec["via"], round(lam, 9), round(rho, 9), round(c, 9), order],
                         nontrivial=len(order) > 1 and len({lam, rho, c}) == 3)
                ctx.count("thermal:" + host)
                ctx.count("thermal-via:" + spec["via"])
                for key, what in _thermal_problems(spec):
                    ctx.violation(key, what, {"kind": "thermal", **spec})


# ---- principal stresses: any unit (Pa, MPa), supplied as values or by hook functions -------------------------------------
def _stress_problems(spec):
    """spec = {stresses: [longitudinal, altitudinal, latitudinal], via: kwargs | hooks, order: [hook names]} ->
    [(key, what)].  Tolerance relative to the LEVEL of the stresses (the identities are homogeneous of degree 1; the
    implementation's sum of squared differences is exact for equal stresses and loses a few ulp otherwise)."""
    import itertools
    from pyroll.core.profile.profile import RoundProfile
    names = ("longitudinal_stress", "altitudinal_stress", "latitudinal_stress")

    def mk(tr):
        if spec["via"] == "hooks":
            cls = type("C17RoundProfile", (RoundProfile,), {})
            for n, v in zip(names, tr):
                getattr(cls, n)(lambda self, v=v: v)
            return cls(radius=0.01)
        return RoundProfile(radius=0.01, **dict(zip(names, tr)))

    a, b, c = spec["stresses"]
    level = max(abs(a), abs(b), abs(c))
    tol = 1e-9 * level
    probs = []
    try:
        p = mk((a, b, c))
        vals = {n: float(getattr(p, n)) for n in spec["order"]}
        hs, es = vals["hydrostatic_stress"], vals["equivalent_stress"]
        perms = [(t, float(mk(t).equivalent_stress)) for t in sorted(set(itertools.permutations((a, b, c))))]
    except Exception as ex:
        if _impl_raised(ex):
            return [("stress-hook-raises", f"{type(ex).__name__}: {ex}")]
        raise
    if not abs(hs - (a + b + c) / 3) <= tol:
        probs.append(("hydrostatic-mean", f"hydrostatic_stress={hs!r} != mean {(a + b + c) / 3!r}"))
    vm = math.sqrt(0.5 * ((a - b) ** 2 + (b - c) ** 2 + (c - a) ** 2))
    if not abs(es - vm) <= tol:
        probs.append(("von-mises-value", f"equivalent_stress={es!r} != von Mises value {vm!r} of {spec['stresses']}"))
    for t, e in perms:
        if not abs(e - es) <= tol:
            probs.append(("von-mises-permutation", f"equivalent_stress {e!r} for {t} but {es!r} for {(a, b, c)}"))
            break
    if a == b == c and not abs(es) <= tol:
        probs.append(("von-mises-hydrostatic", f"hydrostatic state {a!r} gives equivalent_stress={es!r}"))
    nz = [x for x in (a, b, c) if x != 0]
    if len(nz) == 1 and not abs(es - abs(nz[0])) <= tol:
        probs.append(("von-mises-uniaxial", f"uniaxial state {nz[0]!r} gives equivalent_stress={es!r}"))
    return probs


def _run_stress(ctx):
    rng = ctx.rng
    for i in range(ctx.budget(60, 2500)):
        level = 10 ** rng.uniform(-3, 9.5) * rng.choice([-1, 1])
        kind = ["general", "hydrostatic", "uniaxial", "nearly-hydrostatic", "two-equal"][i % 5]
        if kind == "general":
            tr = [level * rng.uniform(-1, 1) for _ in range(3)]
        elif kind == "hydrostatic":
            tr = [level] * 3                                       # any level: not only 'round' numbers
        elif kind == "uniaxial":
            tr = [0.0, 0.0, 0.0]
            tr[rng.randrange(3)] = level
        elif kind == "nearly-hydrostatic":
            tr = [level] * 3
            tr[rng.randrange(3)] = level * (1 + rng.choice([-1, 1]) * 10 ** rng.uniform(-7, -2))
        else:
            x = level * rng.uniform(-1, 1)
            tr = [level, level, x]
            rng.shuffle(tr)
        order = ["hydrostatic_stress", "equivalent_stress"]
        rng.shuffle(order)
        spec = {"kind": "stress", "stresses": tr, "via": "hooks" if i % 4 == 3 else "kwargs", "order": order}
        ctx.case(["stress", kind, spec["via"], [float("%.9g" % x) for x in tr]], nontrivial=len(set(tr)) > 1 or kind == "hydrostatic")
        ctx.count("stress:" + kind)
        ctx.count("stress-via:" + spec["via"])
        seen = set()
        for key, what in _stress_problems(spec):
            if key not in seen:
                seen.add(key)
                ctx.violation(key, what, spec)


# ---- roll passes: links between the coefficient hooks, from the pass's own point of view ----------------------------
COEF = ("draught", "spread", "elongation")
PASS_HOOKS = [f + q for q in COEF for f in ("", "log_", "abs_", "rel_")] + ["strain"]


def _model_fn(model, par):
    """extra hook implementations of the kind spreading plug-ins register"""
    if model == "const":
        return lambda self: par
    if model == "draught-power":
        return lambda self: self.draught ** par
    raise ValueError(model)


# equivalent rectangle / width / height supplied by somebody else than the core (hook function or explicit value): the
# statement's links between the coefficients of a pass must hold whatever rectangle the profiles report
AREA_PRESERVING = ("rect-keep-width", "rect-keep-height", "rect-skewed")
PROFILE_MODELS = {"equivalent_rectangle": ("rect-keep-width", "rect-keep-height", "rect-skewed", "rect-bounding"),
                  "equivalent_width": ("scaled-default",), "equivalent_height": ("scaled-default",)}


def _profile_model_fn(model, par):
    from pyroll.core.shapes import rectangle
    if model == "rect-keep-width":          # the profile's width and area (instead of its width-to-height ratio)
        return lambda self: rectangle(self.width, self.cross_section.area / self.width)
    if model == "rect-keep-height":
        return lambda self: rectangle(self.cross_section.area / self.height, self.height)
    if model == "rect-skewed":              # area kept, ratio changed by par^2
        return lambda self: rectangle(self.equivalent_width * par, self.equivalent_height / par)
    if model == "rect-bounding":            # (scaled) bounding box: neither area nor the default sides
        return lambda self: rectangle(self.width * par, self.height * par)
    if model == "scaled-default":           # for equivalent_width / equivalent_height: the rectangle follows them
        import numpy as np
        return lambda self: par * np.sqrt(self.cross_section.area)
    raise ValueError(model)


def _profile_hooks_preserve_area(ps):
    return all(h == "equivalent_rectangle" and m in AREA_PRESERVING
               for side in ps.get("profile_hooks", {}).values() for h, (m, _) in side.items())


def _build_pass(ps):
    """deterministic: pass spec -> unsolved pass object of a THROW-AWAY subclass (extra hook implementations are
    registered on the subclass only: nothing to undo on the core classes)"""
    from pyroll.core import Roll, RollPass, ThreeRollPass, CircularOvalGroove, RoundGroove, BoxGroove, DiamondGroove
    s, f = ps["scale"], ps["f"]
    if ps["three"]:
        g = RoundGroove(r1=3e-3 * s, r2=12.5e-3 * s * f, depth=5e-3 * s, pad_angle=30)
        base, kw = ThreeRollPass, dict(inscribed_circle_diameter=22e-3 * s)
    else:
        if ps["groove"] == "oval":
            g = CircularOvalGroove(depth=8e-3 * s * f, r1=6e-3 * s, r2=40e-3 * s)
        elif ps["groove"] == "round":
            g = RoundGroove(r1=1e-3 * s, r2=12.5e-3 * s * f, depth=11.5e-3 * s)
        elif ps["groove"] == "box":
            g = BoxGroove(r1=2e-3 * s, r2=4e-3 * s, depth=10e-3 * s * f, usable_width=30e-3 * s, ground_width=24e-3 * s)
        else:
            g = DiamondGroove(r1=3e-3 * s, r2=5e-3 * s, usable_width=38e-3 * s * f, tip_depth=12e-3 * s)
        base, kw = RollPass, dict(gap=2e-3 * s * ps["gapf"])
    sub = type("C17" + base.__name__, (base,), {})
    for hook, (model, par) in sorted(ps.get("hooks", {}).items()):
        getattr(sub, hook)(_model_fn(model, par))
    # hook implementations on the pass's in / out profile classes (what equivalent-flat-pass plug-ins register), again on
    # throw-away subclasses: Unit.init_solve instantiates `self.InProfile` / `self.OutProfile`
    for side, attr in (("in", "InProfile"), ("out", "OutProfile")):
        hooks = ps.get("profile_hooks", {}).get(side)
        if hooks:
            pcls = type(attr, (getattr(base, attr),), {})
            setattr(sub, attr, pcls)
            for hook, (model, par) in sorted(hooks.items()):
                getattr(pcls, hook)(_profile_model_fn(model, par))
    kw.update(ps.get("explicit", {}))
    return sub(label="c17", roll=Roll(groove=g, nominal_radius=160e-3 * s, rotational_frequency=1), **kw)


def _pass_spec(rng, three):
    return {"three": three, "groove": rng.choice(["oval", "round", "box", "diamond"]),
            "scale": math.exp(rng.uniform(-1, 1)), "f": rng.uniform(0.95, 1.1), "gapf": rng.uniform(0.5, 1.5)}


def _mk_profile(spec):
    """profile spec -> real Profile; "explicit": values the user supplies for hooks that usually default to others
    (equivalent_rectangle as [width, height])"""
    from pyroll.core import Profile
    from pyroll.core.shapes import rectangle
    kw = {}
    for n, v in spec.get("explicit", {}).items():
        kw[n] = rectangle(*v) if n == "equivalent_rectangle" else v
    return getattr(Profile, spec["kind"])(**spec["args"], **kw)


def _pass_link_problems(rp, order, overridden, volume_conserved, plain_sum):
    """Read the 13 coefficient hooks in the given order and check every link the statement makes between them, using the
    values the PASS reports (so an overridden spread must show up in log_spread and in strain):
      log_q = log(q);  strain = sqrt(2/3 (log_e^2 + log_s^2 + log_d^2));  rel_q = abs_q / in-dimension;
      and, where the pass derives them from its profiles (not overridden): q = out/in ratio, abs_q = out - in, rel_q = q - 1.
    Tolerances: every link is one or two float operations (rtol 1e-9 leaves >5 decades over the rounding error); the
    links with a cancellation (out - in) are compared in absolute terms relative to the operands."""
    V = {}
    for n in order:
        V[n] = float(getattr(rp, n))
    for n in order:                                   # a second read returns the same (cached / explicit) value
        again = float(getattr(rp, n))
        if again != V[n]:
            return [("pass-reread", f"{n} read twice gives {V[n]!r} then {again!r}")]
    ip, op = rp.in_profile, rp.out_profile
    io = {"draught": (float(ip.equivalent_rectangle.height), float(op.equivalent_rectangle.height)),
          "spread": (float(ip.equivalent_rectangle.width), float(op.equivalent_rectangle.width)),
          "elongation": (float(ip.length), float(op.length))}
    ratio = {"draught": io["draught"][1] / io["draught"][0], "spread": io["spread"][1] / io["spread"][0],
             "elongation": float(ip.cross_section.area) / float(op.cross_section.area)}
    probs = []
    tol = 1e-9
    for q in COEF:
        i_, o_ = io[q]
        if "log_" + q not in overridden and V[q] > 0:
            lg = math.log(V[q])
            if abs(V["log_" + q] - lg) > tol * max(1, abs(lg)):
                probs.append((f"log-{q}", f"log_{q}={V['log_' + q]!r} != log({q})={lg!r} ({q}={V[q]!r})"))
        if "rel_" + q not in overridden:
            if abs(V["rel_" + q] - V["abs_" + q] / i_) > tol * max(1, abs(V["rel_" + q])):
                probs.append((f"rel-{q}-link", f"rel_{q}={V['rel_' + q]!r} != abs_{q}/in={V['abs_' + q] / i_!r}"))
        if q not in overridden and _rel(V[q], ratio[q]) > tol:
            probs.append((f"{q}-coefficient", f"{q}={V[q]!r} != ratio of the profiles {ratio[q]!r}"))
        if "abs_" + q not in overridden and abs(V["abs_" + q] - (o_ - i_)) > tol * max(abs(o_), abs(i_)):
            probs.append((f"abs-{q}", f"abs_{q}={V['abs_' + q]!r} != out-in={o_ - i_!r}"))
        if not {q, "abs_" + q, "rel_" + q} & overridden and (q != "elongation" or volume_conserved):
            # elongation is an area ratio, rel_elongation a length ratio: equal under volume constancy; a solved pass
            # conserves volume only up to its iteration precision, hence the wider tolerance there (given by the caller)
            t = tol if q != "elongation" else volume_conserved
            if abs(V["rel_" + q] - (V[q] - 1)) > t * max(1, abs(V[q])):
                probs.append((f"rel-{q}", f"rel_{q}={V['rel_' + q]!r} != {q}-1={V[q] - 1!r}"))
    if "strain" not in overridden:
        st = math.sqrt(2 / 3 * (V["log_elongation"] ** 2 + V["log_spread"] ** 2 + V["log_draught"] ** 2))
        if abs(V["strain"] - st) > tol * max(1, st):
            probs.append(("pass-strain", f"strain={V['strain']!r} != equivalent of the log coefficients {st!r} "
                          f"(log_elongation={V['log_elongation']!r}, log_spread={V['log_spread']!r}, "
                          f"log_draught={V['log_draught']!r})"))
    if plain_sum and not overridden:
        sm = V["log_draught"] + V["log_spread"] + V["log_elongation"]
        if abs(sm) > 1e-8:
            probs.append(("log-sum", f"log coefficients sum to {sm!r}"))
    return probs


def _override_problems(spec):
    """a SOLVED pass whose coefficient hooks are partly overridden (extra implementation on a throw-away subclass and/or
    explicit constructor value). Returns None when the pass cannot be built/solved (not a matter of this property)."""
    from .common import make_in_profile
    try:
        rp = _build_pass(spec["pass"])
        rp.solve(make_in_profile(None, spec["in_kind"], size=spec["in_size"]))
    except Exception as ex:
        if _impl_raised(ex) or isinstance(ex, (ValueError, RuntimeError)):
            return None
        raise
    overridden = set(spec["pass"].get("hooks", {})) | set(spec["pass"].get("explicit", {}))
    try:
        # volume: out length comes from the pass's OWN elongation, lengths are exact up to rounding
        # (log coefficients sum to zero only where the rectangles the profiles report carry the areas)
        return _pass_link_problems(rp, spec["order"], overridden, 1e-6, _profile_hooks_preserve_area(spec["pass"]))
    except Exception as ex:
        if _impl_raised(ex):
            return [("pass-hook-raises", f"{type(ex).__name__}: {ex}")]
        raise


def _rand_profile_hooks(rng, mode):
    """hook functions for the in / out profile classes of a pass: mode in none | out-rect | in-rect | both-rect | sides"""
    def rect():
        m = rng.choice(PROFILE_MODELS["equivalent_rectangle"])
        return (m, rng.uniform(0.7, 1.4) if m == "rect-skewed" else rng.uniform(0.6, 1.0))
    if mode == "out-rect":
        return {"out": {"equivalent_rectangle": rect()}}
    if mode == "in-rect":
        return {"in": {"equivalent_rectangle": rect()}}
    if mode == "both-rect":
        return {"in": {"equivalent_rectangle": rect()}, "out": {"equivalent_rectangle": rect()}}
    if mode == "sides":                 # equivalent_width / equivalent_height replaced: the default rectangle follows them
        out = {}
        for side in ("in", "out"):
            hk = {}
            if rng.random() < 0.7:
                hk["equivalent_width"] = ("scaled-default", rng.uniform(0.8, 1.6))
            if rng.random() < 0.7:
                hk["equivalent_height"] = ("scaled-default", rng.uniform(0.5, 1.2))
            if hk:
                out[side] = hk
        return out
    return {}


PROFILE_HOOK_MODES = ["none", "out-rect", "both-rect", "sides", "in-rect"]


def _run_override_passes(ctx):
    rng = ctx.rng
    n = ctx.budget(30, 500)
    for i in range(n):
        three = i % 3 == 2
        ps = _pass_spec(rng, three)
        pmode = PROFILE_HOOK_MODES[i % 5]
        ps["profile_hooks"] = _rand_profile_hooks(rng, pmode)
        mode = ["hook-spread", "hook-elongation", "hook-draught", "explicit-spread", "explicit-draught",
                "explicit-elongation", "hook-spread+explicit-draught", "plain"][i % 8]
        hooks, explicit = {}, {}
        for part in mode.split("+"):
            how, _, q = part.partition("-")
            if how == "hook":
                if q == "draught":
                    hooks[q] = ("const", rng.uniform(0.5, 0.95))
                elif rng.random() < 0.6:
                    # the usual shape of a spread model: a power of the draught
                    hooks[q] = ("draught-power", rng.uniform(-0.9, -0.1) if q == "spread" else rng.uniform(-1.2, -0.3))
                else:
                    hooks[q] = ("const", rng.uniform(1.02, 1.6))
            elif how == "explicit":
                explicit[q] = rng.uniform(0.5, 0.95) if q == "draught" else rng.uniform(1.02, 1.6)
        ps["hooks"], ps["explicit"] = hooks, explicit
        order = list(PASS_HOOKS)
        rng.shuffle(order)
        spec = {"pass": ps, "in_kind": rng.choice(["round", "square", "box", "diamond"]) if not three else "round",
                "in_size": 30e-3 * ps["scale"] * rng.uniform(0.85, 1.05), "order": order}
        probs = _override_problems(spec)
        if probs is None:
            ctx.count("override-pass:not-solvable")
            continue
        ctx.case(["override-pass", mode, pmode, three, ps["groove"], round(ps["scale"], 6), round(spec["in_size"], 9)],
                 nontrivial=mode != "plain" or pmode != "none")
        ctx.count("override-pass:" + ("three-roll" if three else "two-roll"))
        ctx.count("override-pass-mode:" + mode)
        ctx.count("override-pass-profile-hooks:" + pmode)
        for key, what in probs:
            ctx.violation(key, what, {"kind": "override-pass", **spec})


def _stub_problems(spec):
    """an UNSOLVED pass with two real profiles attached as in/out profile and some coefficient hooks given explicitly"""
    try:
        rp = _build_pass(spec["pass"])
        rp.in_profile = _mk_profile(spec["in"])
        rp.out_profile = _mk_profile(spec["out"])
    except Exception as ex:
        if _impl_raised(ex) or isinstance(ex, (ValueError, RuntimeError)):
            return None
        raise
    for n, v in spec["explicit"].items():
        setattr(rp, n, v)
    overridden = set(spec["explicit"]) | set(spec["pass"].get("hooks", {}))
    try:
        plain = (not spec["in"].get("explicit") and not spec["out"].get("explicit")
                 and _profile_hooks_preserve_area(spec["pass"]))
        return _pass_link_problems(rp, spec["order"], overridden, 1e-9 if spec["volume_conserved"] else 0, plain)
    except Exception as ex:
        if _impl_raised(ex):
            return [("pass-hook-raises", f"{type(ex).__name__}: {ex}")]
        raise


def _rand_profile_spec(rng, size):
    kind = rng.choice(["round", "square", "box", "diamond"])
    if kind == "round":
        args = dict(radius=size / 2)
    elif kind == "square":
        args = dict(side=size * 0.8, corner_radius=size * rng.uniform(0, 0.1))
    elif kind == "box":
        args = dict(height=size, width=size * rng.uniform(0.5, 2), corner_radius=size * rng.uniform(0, 0.05))
    else:
        args = dict(height=size, width=size * rng.uniform(0.6, 2), corner_radius=size * rng.uniform(0, 0.05))
    return {"kind": kind, "args": args}


def _run_stub_passes(ctx):
    rng = ctx.rng
    for i in range(ctx.budget(60, 1500)):
        ps = _pass_spec(rng, three=i % 4 == 3)
        if i % 5 == 4:
            ps["hooks"] = {"spread": ("draught-power", rng.uniform(-0.9, -0.1))}
        size = 30e-3 * ps["scale"]
        sp_in = _rand_profile_spec(rng, size)
        # draught below AND above 1: the out profile may be larger than the in profile
        sp_out = _rand_profile_spec(rng, size * math.exp(rng.uniform(-0.7, 0.5)))
        explicit = {}
        m = i % 3
        if m == 1:                       # one of the three coefficients supplied, as a spread model result would be
            explicit[rng.choice(COEF)] = math.exp(rng.uniform(-0.7, 0.7))
        elif m == 2:                     # a random subset of all 13 values supplied
            for n in PASS_HOOKS:
                if rng.random() < 0.2:
                    explicit[n] = (math.exp(rng.uniform(-0.7, 0.7)) if n in COEF or n == "strain"
                                   else rng.uniform(0.05, 1) * rng.choice([-1, 1]) * (size if n.startswith("abs_") else 1))
        try:
            pin, pout = _mk_profile(sp_in), _mk_profile(sp_out)
            a_in, a_out = float(pin.cross_section.area), float(pout.cross_section.area)
        except Exception as ex:
            if _impl_raised(ex) or isinstance(ex, (ValueError, RuntimeError)):
                ctx.count("stub-pass:profile-rejected")
                continue
            raise
        l_in = math.exp(rng.uniform(-1, 2))
        vol = rng.random() < 0.7
        sp_in["args"]["length"] = l_in
        sp_out["args"]["length"] = l_in * a_in / a_out if vol else l_in * math.exp(rng.uniform(-0.5, 0.5))
        # explicit values on the PROFILES for what usually defaults to other values: the rectangle itself, or one / both
        # of its sides (the pass must take whatever the profiles report, consistently in all 13 hooks)
        pm = (i // 3) % 4
        for sp, sz in ((sp_in, size), (sp_out, size * math.sqrt(a_out / a_in))):
            if pm == 1 or (pm == 3 and rng.random() < 0.5):
                sp["explicit"] = {"equivalent_rectangle": [sz * rng.uniform(0.5, 1.5), sz * rng.uniform(0.5, 1.5)]}
            elif pm == 2:
                sp["explicit"] = {n: sz * rng.uniform(0.5, 1.5) for n in ("equivalent_width", "equivalent_height")
                                  if rng.random() < 0.7}
        order = list(PASS_HOOKS)
        rng.shuffle(order)
        spec = {"pass": ps, "in": sp_in, "out": sp_out, "explicit": explicit, "order": order, "volume_conserved": vol}
        probs = _stub_problems(spec)
        if probs is None:
            ctx.count("stub-pass:rejected")
            continue
        ctx.case(["stub-pass", ps["three"], sp_in["kind"], sp_out["kind"], round(size, 9), sorted(explicit), order[:4]],
                 nontrivial=True)
        ctx.count("stub-pass:" + ("draught>1" if a_out > a_in else "draught<1"))
        ctx.count("stub-pass:explicit=%d" % min(len(explicit), 3))
        ctx.count("stub-pass:profile-explicit=" + "+".join(sorted(set(sp_in.get("explicit", {}))
                                                                  | set(sp_out.get("explicit", {})))))
        for key, what in probs:
            ctx.violation(key, what, {"kind": "stub-pass", **spec})


# ---- chords: local_height / local_width against the cross-section the profile has NOW ---------------------------------
def _chord_problems(p, n=161, bound_by_hooks=True, again=None, used=None):
    """The statement's clauses about local heights and widths, on the profile as it is at this moment:
      * they are chords of the cross-section: local_height(z) is the length of {y : (z, y) in cross-section};
      * bounded by the overall height / width;  * zero outside the cross-section;  * they integrate to the area.
    -> [(clause, text)].  Tolerances: chords of nested regions are nested, so a chord must lie between the chord of the
    cross-section shrunk and grown by delta = 1e-9 * size (the implementation grows it by 1e-12 * size on purpose, to
    keep chords lying on the boundary); midpoint rule on n points of a piecewise smooth chord function: a few / n
    relative.  `again` = {method name: positions queried on this object earlier}: they are queried again (a chord is a
    function of the position and the PRESENT cross-section); `used` (a dict) receives some of the positions queried now."""
    import numpy as np
    from shapely.geometry import LineString
    cs = p.cross_section
    zmin, ymin, zmax, ymax = cs.bounds
    W, H, A = zmax - zmin, ymax - ymin, float(cs.area)
    delta = atol = 1e-9 * (W + H)
    lo_reg, hi_reg = cs.buffer(-delta), cs.buffer(delta)
    big = 10 * max(W, H, abs(zmin), abs(zmax), abs(ymin), abs(ymax))
    probs = []

    def side(name, fn, a0, ext, other_lo, overall, line):
        xs = a0 + (np.arange(n) + 0.5) * ext / n
        v = np.array([float(fn(x)) for x in xs])
        lo = np.array([line(x).intersection(lo_reg).length for x in xs])
        hi = np.array([line(x).intersection(hi_reg).length for x in xs])
        bad = (v < lo - atol) | (v > hi + atol)
        if bad.any():
            k = int(np.argmax(np.maximum(lo - v, v - hi)))
            probs.append(("mismatch", f"{name}({float(xs[k])!r}) = {float(v[k])!r}, the chord of the cross-section there is "
                          f"{float(lo[k])!r}..{float(hi[k])!r} ({int(bad.sum())} of {n} sample positions differ)"))
        for x in (again or {}).get(name, []):
            o = float(fn(x))
            l_, h_ = line(x).intersection(lo_reg).length, line(x).intersection(hi_reg).length
            if o < l_ - atol or o > h_ + atol:
                probs.append(("mismatch", f"{name}({float(x)!r}) = {o!r} (a position queried before on this object), the "
                              f"chord of the cross-section there is {float(l_)!r}..{float(h_)!r}"))
                break
        if used is not None:
            used[name] = [float(x) for x in xs[:: max(1, n // 12)]]
        if bound_by_hooks and (v > overall * (1 + 1e-9) + atol).any():
            probs.append(("exceeds-extent", f"{name} reaches {float(v.max())!r}, more than the overall "
                          f"{'height' if name == 'local_height' else 'width'} {overall!r}"))
        integ = float(v.sum() * ext / n)
        if _rel(integ, A) > 3e-2:
            probs.append(("integral", f"{name} integrates to {integ!r}, the area is {A!r}"))
        for x in (a0 - 0.3 * ext, a0 - 0.02 * ext, a0 + 1.02 * ext, a0 + 1.3 * ext):
            o = float(fn(x))
            if abs(o) > atol:
                probs.append(("nonzero-outside", f"{name}({float(x)!r}) = {o!r} outside the cross-section "
                              f"(which spans {float(a0)!r}..{float(a0 + ext)!r})"))
                break

    side("local_height", p.local_height, zmin, W, ymin, float(p.height), lambda z: LineString([(z, -big), (z, big)]))
    side("local_width", p.local_width, ymin, H, zmin, float(p.width), lambda y: LineString([(-big, y), (big, y)]))
    return probs


def _star_points(rng, sc):
    """non-convex star polygon with alternating radii, bounding box centred on the origin -> point list or None"""
    from shapely.geometry import Polygon
    from shapely.affinity import translate as _tr
    n = rng.randrange(5, 12)
    pts = []
    for k in range(n):
        ang = 2 * math.pi * k / n + rng.uniform(-0.2, 0.2) / n
        rad = sc * (rng.uniform(0.35, 0.6) if k % 2 else rng.uniform(0.8, 1.0))
        pts.append((rad * math.cos(ang), rad * math.sin(ang)))
    poly = Polygon(pts)
    if not poly.is_valid or poly.is_empty:
        return None
    b = poly.bounds
    poly = _tr(poly, xoff=-(b[0] + b[2]) / 2, yoff=-(b[1] + b[3]) / 2)
    return [list(c) for c in poly.exterior.coords]


def _rand_shape_spec(rng, size):
    """shape spec = factory profile (kind/args) or a non-convex polygon (kind polygon / points)"""
    if rng.random() < 0.3:
        pts = _star_points(rng, size / 2)
        if pts:
            return {"kind": "polygon", "points": pts}
    return _rand_profile_spec(rng, size)


def _shape_profile(spec):
    from pyroll.core import Profile
    from shapely.geometry import Polygon
    if spec["kind"] == "polygon":
        return Profile.from_polygon(Polygon(spec["points"]), classifiers={"star"})
    return _mk_profile(spec)


# ---- equivalent rectangle / radius where width and height are GIVEN (not the bounding box of the cross-section) -----------
def _rect_problems(spec):
    """spec = {shape: shape spec, set: {height?, width?} (assigned to the hooks after construction), order} -> [(key, what)]
    The statement: the equivalent rectangle has the profile's area and ITS width-to-height ratio (the profile's width and
    height hooks, whoever supplies them), the equivalent radius the area."""
    p = _shape_profile(spec["shape"])
    try:
        for n, v in spec["set"].items():
            setattr(p, n, v)
        p.reevaluate_cache()
        for n in spec["order"]:
            getattr(p, n)
        A, w, h = float(p.cross_section.area), float(p.width), float(p.height)
        ew, eh, er = float(p.equivalent_width), float(p.equivalent_height), float(p.equivalent_radius)
        rect = p.equivalent_rectangle
        ra, rw, rh = float(rect.area), float(rect.width), float(rect.height)
    except Exception as ex:
        if _impl_raised(ex):
            return [("profile-hook-raises", f"{type(ex).__name__}: {ex}")]
        raise
    probs, tol = [], 1e-9
    if _rel(ew * eh, A) > tol:
        probs.append(("equivalent-rectangle-area", f"equivalent_width*equivalent_height={ew * eh!r} != area {A!r}"))
    if _rel(ew / eh, w / h) > tol:
        probs.append(("equivalent-rectangle-ratio", f"equivalent_width/equivalent_height={ew / eh!r} != width/height="
                      f"{w / h!r} (width={w!r}, height={h!r})"))
    if _rel(math.pi * er ** 2, A) > tol:
        probs.append(("equivalent-radius-area", f"pi*equivalent_radius^2={math.pi * er ** 2!r} != area {A!r}"))
    if _rel(ra, A) > 1e-7 or _rel(rw / rh, w / h) > 1e-7:
        probs.append(("equivalent-rectangle-shape", f"equivalent_rectangle polygon: area {ra!r} (profile {A!r}), "
                      f"width/height {rw / rh!r} (profile {w / h!r})"))
    return probs


def _run_rect(ctx):
    rng = ctx.rng
    hooks = ["equivalent_width", "equivalent_height", "equivalent_radius", "equivalent_rectangle"]
    for i in range(ctx.budget(30, 800)):
        size = math.exp(rng.uniform(-6, 2))
        shape = _rand_shape_spec(rng, size)
        st = {}
        m = i % 4
        if m in (1, 3):
            st["height"] = size * rng.uniform(0.3, 3)
        if m in (2, 3):
            st["width"] = size * rng.uniform(0.3, 3)
        order = list(hooks)
        rng.shuffle(order)
        spec = {"kind": "rectangle", "shape": shape, "set": st, "order": order}
        try:
            probs = _rect_problems(spec)
        except (ValueError, RuntimeError) as ex:
            if _impl_raised(ex):
                ctx.count("rectangle:shape-rejected")
                continue
            raise
        ctx.case(["rectangle", shape["kind"], round(size, 9), sorted(st), order[0]], nontrivial=bool(st))
        ctx.count("rectangle:set=" + "+".join(sorted(st)))
        for key, what in probs:
            ctx.violation(key, what, spec)


# ---- used objects: the same profile sampled, given another cross-section, copied, rebuilt, sampled again -------------------
# Every `sample` checks the clauses against the cross-section the profile has at that moment: whatever a profile kept
# from an earlier call (or a copy inherited from its original) must not show.
def _history_problems(spec):
    """spec = {start: shape spec, ops: [[sample] | [set-cross-section, shape spec] | [scale, f] | [reevaluate] |
    [deepcopy] | [rebuild]]} -> [(key, what)]"""
    import copy
    from pyroll.core import Profile
    from shapely.affinity import scale as _scale
    p = _shape_profile(spec["start"])
    probs, used, changed, positions = [], False, False, {}
    for i, op in enumerate(spec["ops"]):
        try:
            if op[0] == "sample":
                prefix = "used-profile-chord-" if (used and changed) else "chord-"
                now = {}
                for clause, what in _chord_problems(p, again=positions, used=now):
                    probs.append((prefix + clause, f"after {spec['ops'][:i]}: {what}"))
                positions = now
                used = True
                if probs:
                    return probs
            elif op[0] == "set-cross-section":
                # a HookHost attribute may be assigned; derived values are refreshed by reevaluate_cache() (as Unit.solve
                # does for the out profile of a pass between iterations)
                p.cross_section = _shape_profile(op[1]).cross_section
                p.reevaluate_cache()
                changed = True
            elif op[0] == "scale":
                p.cross_section = _scale(p.cross_section, op[1], op[1], origin=(0, 0))
                p.reevaluate_cache()
                changed = True
            elif op[0] == "reevaluate":
                p.reevaluate_cache()
            elif op[0] == "deepcopy":
                p = copy.deepcopy(p)
            elif op[0] == "rebuild":     # the way Unit.solve hands a profile on: public attributes only
                p = Profile(**{k: v for k, v in p.__dict__.items() if not k.startswith("_")})
            else:
                raise ValueError(op)
        except Exception as ex:
            if _impl_raised(ex):
                return [("used-profile-raises", f"op #{i} {op[0]}: {type(ex).__name__}: {ex}")]
            raise
    return probs


def _shrink_history(spec, key):
    """drop operations one at a time while the same key is still reported"""
    ops = list(spec["ops"])
    i = 0
    while i < len(ops) - 1:
        trial = dict(spec, ops=ops[:i] + ops[i + 1:])
        if any(k == key for k, _ in _history_problems(trial)):
            ops = trial["ops"]
        else:
            i += 1
    return dict(spec, ops=ops)


def _run_chord_histories(ctx):
    rng = ctx.rng
    for i in range(ctx.budget(14, 400)):
        size = math.exp(rng.uniform(-5, 1))
        spec = {"kind": "chord-history", "start": _rand_shape_spec(rng, size), "ops": []}
        ops = spec["ops"]
        if rng.random() < 0.85:
            ops.append(["sample"])                      # the object is USED before it changes
        for _ in range(rng.randrange(1, 4)):
            r = rng.random()
            if r < 0.45:
                ops.append(["set-cross-section", _rand_shape_spec(rng, size * math.exp(rng.uniform(-1.2, 1.2)))])
            elif r < 0.6:
                ops.append(["scale", math.exp(rng.choice([-1, 1]) * rng.uniform(0.2, 1.5))])
            elif r < 0.7:
                ops.append(["reevaluate"])
            elif r < 0.85:
                ops.append(["deepcopy"])
            else:
                ops.append(["rebuild"])
            if rng.random() < 0.5:
                ops.append(["sample"])
        if ops[-1] != ["sample"]:
            ops.append(["sample"])
        try:
            probs = _history_problems(spec)
        except Exception as ex:
            if isinstance(ex, (ValueError, RuntimeError)) and not _impl_raised(ex):
                ctx.count("chord-history:shape-rejected")
                continue
            raise
        ctx.case(["chord-history", spec["start"]["kind"], round(size, 9), [o[0] for o in ops]],
                 nontrivial=any(o[0] in ("set-cross-section", "scale") for o in ops))
        for o in ops:
            ctx.count("chord-history-op:" + o[0])
        seen = set()
        for key, what in probs:
            if key in seen:
                continue
            seen.add(key)
            small = _shrink_history(spec, key)
            what2 = next((w for k, w in _history_problems(small) if k == key), what)
            ctx.violation(key, what2, small)


# ---- used passes: solved, changed (gap / incoming profile), solved again -------------------------------------------------
# The out profile object of a pass is reused by later solves; the pass's own hook values are re-evaluated. After EVERY
# solve the links between the 13 coefficient hooks and the chord clauses on the in and out profile must hold for the
# state the pass has then.
def _resolve_problems(spec):
    """spec = {pass, steps: [{in_kind, in_size, gapf | None, pre_sample}], order} -> [(key, what)] or None (first solve
    impossible)"""
    from .common import make_in_profile
    ps = spec["pass"]
    try:
        rp = _build_pass(ps)
    except Exception as ex:
        if _impl_raised(ex) or isinstance(ex, (ValueError, RuntimeError)):
            return None
        raise
    overridden = set(ps.get("hooks", {})) | set(ps.get("explicit", {}))
    plain = _profile_hooks_preserve_area(ps)
    probs, out_positions = [], {}
    for k, st in enumerate(spec["steps"]):
        pre = "" if k == 0 else "resolved-"
        when = f"solve #{k + 1} ({st})"
        try:
            ip = make_in_profile(None, st["in_kind"], size=st["in_size"])
            if st.get("pre_sample"):        # the incoming profile object is used before it is handed to solve
                for clause, what in _chord_problems(ip, n=41):
                    probs.append(("chord-" + clause, f"{when}, incoming profile before solve: {what}"))
            if st.get("gapf") is not None and not ps["three"]:
                rp.gap = 2e-3 * ps["scale"] * st["gapf"]
            rp.solve(ip)
        except Exception as ex:
            if _impl_raised(ex) or isinstance(ex, (ValueError, RuntimeError)):
                return None if k == 0 else probs      # not solvable: not a matter of this property
            raise
        try:
            for key, what in _pass_link_problems(rp, spec["order"], overridden, 1e-6, plain):
                probs.append((pre + key, f"{when}: {what}"))
            targets = [("in profile", rp.in_profile), ("out profile", rp.out_profile)]
            if st.get("pre_sample"):
                targets.append(("incoming profile after solve", ip))
            for name, prof in targets:
                # three-fold profiles define their overall height / width through the centroid, not the bounding box;
                # the out profile object is reused by later solves: its earlier query positions are queried again
                now = {}
                for clause, what in _chord_problems(prof, n=61, bound_by_hooks=not ps["three"], used=now,
                                                    again=out_positions if name == "out profile" else None):
                    probs.append((pre + "pass-profile-chord-" + clause, f"{when}, {name}: {what}"))
                if name == "out profile":
                    out_positions = now
        except Exception as ex:
            if _impl_raised(ex):
                probs.append((pre + "pass-hook-raises", f"{when}: {type(ex).__name__}: {ex}"))
                return probs
            raise
        if probs:
            return probs
    return probs


def _run_resolve_passes(ctx):
    rng = ctx.rng
    for i in range(ctx.budget(16, 300)):
        three = i % 4 == 3
        ps = _pass_spec(rng, three)
        ps["profile_hooks"] = _rand_profile_hooks(rng, PROFILE_HOOK_MODES[(i // 2) % 5]) if i % 2 else {}
        if i % 5 == 4:
            ps["hooks"] = {"spread": ("draught-power", rng.uniform(-0.9, -0.1))}
        steps = []
        for k in range(rng.randrange(2, 4)):
            steps.append({"in_kind": rng.choice(["round", "square", "box", "diamond"]) if not three else "round",
                          "in_size": 30e-3 * ps["scale"] * rng.uniform(0.85, 1.05),
                          # later solves: another gap (larger and smaller), or the same pass with another incoming profile
                          "gapf": None if (k == 0 or rng.random() < 0.25) else rng.uniform(0.3, 3.5),
                          "pre_sample": rng.random() < 0.3})
        order = list(PASS_HOOKS)
        rng.shuffle(order)
        spec = {"kind": "resolve-pass", "pass": ps, "steps": steps, "order": order}
        probs = _resolve_problems(spec)
        if probs is None:
            ctx.count("resolve-pass:not-solvable")
            continue
        ctx.case(["resolve-pass", three, ps["groove"], round(ps["scale"], 6), [round(s_["in_size"], 9) for s_ in steps],
                  [s_["gapf"] and round(s_["gapf"], 6) for s_ in steps]], nontrivial=True)
        ctx.count("resolve-pass:" + ("three-roll" if three else "two-roll"))
        ctx.count("resolve-pass:solves=%d" % len(steps))
        seen = set()
        for key, what in probs:
            if key not in seen:
                seen.add(key)
                ctx.violation(key, what, spec)


def replay(ctx, data):
    """re-run one replay file written by this module (the kinds produced by the spec-driven oracles)"""
    r = data.get("replay", data)
    kind = r.get("kind")
    if kind == "thermal":
        probs = _thermal_problems(r)
    elif kind == "override-pass":
        r["pass"]["hooks"] = {k: tuple(v) for k, v in r["pass"].get("hooks", {}).items()}
        probs = _override_problems(r) or []
    elif kind == "stub-pass":
        r["pass"]["hooks"] = {k: tuple(v) for k, v in r["pass"].get("hooks", {}).items()}
        probs = _stub_problems(r) or []
    elif kind == "stress":
        probs = _stress_problems(r)
    elif kind == "rectangle":
        probs = _rect_problems(r)
    elif kind == "chord-history":
        probs = _history_problems(r)
    elif kind == "resolve-pass":
        probs = _resolve_problems(r) or []
    else:
        raise NotImplementedError("replay of this kind of case: re-run ./check C17 with the recorded seed")
    for key, what in probs:
        ctx.violation(key, what, r)


def run(ctx):
    import numpy as np
    rng = ctx.rng
    # ---- (a) generated formulas vs the python functions they came from ----------------------------
    found = getattr(ctx, "found", None)
    if found is None:
        class _C:  # extended search re-enters run() without translate()
            tie_breaks, notes = [], {}
        from ..translate import gen as _g
        found = {}
        idx = _g.hookimpl_index(sorted({rel for (_, rel, _) in SELECTION}))
        for (name, rel, fn) in SELECTION:
            if (rel, fn) in idx:
                found[name] = idx[(rel, fn)]
    if getattr(ctx, "model_available", True):
        stub.formula_correspondence(ctx, MODEL, found, _sampler, n_each=ctx.budget(8, 200))
        # ... and every ALTERNATIVE (guarded branch / `return None`) under a stub state satisfying its path condition
        c17_alts.alt_correspondence(ctx, MODEL, found, _sampler, n_each=ctx.budget(4, 60))
        # ... and the geometric items (chord methods, rectangle, equivalent_rectangle) on real profiles / polygons
        if getattr(ctx, "c17_geo", None):
            profs = []
            for _ in range(ctx.budget(8, 120)):
                try:
                    profs.append(_shape_profile(_rand_shape_spec(rng, math.exp(rng.uniform(-5, 1)))))
                except (ValueError, RuntimeError):
                    pass
            c17_geo.geo_correspondence(ctx, MODEL, ctx.c17_geo, profs, n_pos=ctx.budget(4, 10), n_rect=ctx.budget(30, 400))
    elif not ctx.extended:
        for what in getattr(ctx, "c17_changed", []):
            ctx.tie_breaks.append("source item behind the failing obligation: " + what)

    # ---- (b) oracle on real stand-alone profiles ----------------------------------------------------
    tol = 1e-9
    for kind, s, kw, mode, p in _profiles(ctx, ctx.budget(150, 6000)):
        a, b, c = kw["longitudinal_stress"], kw["altitudinal_stress"], kw["latitudinal_stress"]
        ctx.case(["profile", kind, sorted(s.items()), round(a, 6), round(b, 6), round(c, 6)],
                 nontrivial=len({a, b, c}) == 3)
        ctx.count("profile:" + kind)
        replay = {"factory": "Profile." + kind, "args": s, "kwargs": kw}
        try:
            # hook values are cached on first read: read the derived quantities of this fresh object in a random order
            # (the identities below must not depend on which of them was evaluated first)
            order = ["equivalent_width", "equivalent_height", "equivalent_radius", "equivalent_rectangle",
                     "hydrostatic_stress", "equivalent_stress", "thermal_diffusivity", "heat_penetration_number"]
            rng.shuffle(order)
            replay["read_order"] = order
            for n in order:
                getattr(p, n)
            A, w, h = p.cross_section.area, p.width, p.height
            ew, eh, er = p.equivalent_width, p.equivalent_height, p.equivalent_radius
            if _rel(ew * eh, A) > tol:
                ctx.violation("equivalent-rectangle-area", f"equivalent_width*equivalent_height={ew * eh} != area {A}", replay)
            if _rel(ew / eh, w / h) > tol:
                ctx.violation("equivalent-rectangle-ratio", f"ew/eh={ew / eh} != w/h={w / h}", replay)
            if _rel(math.pi * er ** 2, A) > tol:
                ctx.violation("equivalent-radius-area", f"pi*r_eq^2={math.pi * er ** 2} != area {A}", replay)
            rect = p.equivalent_rectangle
            if _rel(rect.area, A) > 1e-7 or _rel(rect.width / rect.height, w / h) > 1e-7:
                ctx.violation("equivalent-rectangle-shape", "equivalent_rectangle polygon has wrong area or ratio", replay)
            hs, es = p.hydrostatic_stress, p.equivalent_stress
            if abs(hs - (a + b + c) / 3) > tol * max(1, abs(a), abs(b), abs(c)):
                ctx.violation("hydrostatic-mean", f"hydrostatic_stress={hs} != mean {(a + b + c) / 3}", replay)
            vm = math.sqrt(0.5 * ((a - b) ** 2 + (b - c) ** 2 + (c - a) ** 2))
            if abs(es - vm) > tol * max(1, abs(vm)):
                ctx.violation("von-mises-value", f"equivalent_stress={es} != von Mises {vm}", replay)
            from pyroll.core import Profile
            for perm in ((b, c, a), (c, a, b), (b, a, c)):
                q = Profile.round(radius=1, longitudinal_stress=perm[0], altitudinal_stress=perm[1],
                                  latitudinal_stress=perm[2])
                if abs(q.equivalent_stress - es) > tol * max(1, abs(es)):
                    ctx.violation("von-mises-permutation", f"equivalent_stress changes under permutation {perm}: "
                                  f"{q.equivalent_stress} vs {es}", replay)
            if mode < 0.15 and abs(es) > 1e-9 * max(1, abs(a)):
                ctx.violation("von-mises-hydrostatic", f"hydrostatic state gives equivalent_stress={es}", replay)
            if 0.15 <= mode < 0.35:
                sv = a + b + c
                if abs(es - abs(sv)) > tol * max(1, abs(sv)):
                    ctx.violation("von-mises-uniaxial", f"uniaxial s={sv} gives equivalent_stress={es}", replay)
            k_, rho, cp = kw["thermal_conductivity"], kw["density"], kw["specific_heat_capacity"]
            if _rel(p.thermal_diffusivity * rho * cp, k_) > tol:
                ctx.violation("thermal-diffusivity", "thermal_diffusivity*density*heat_capacity != conductivity", replay)
            if _rel(p.heat_penetration_number ** 2, k_ * rho * cp) > tol:
                ctx.violation("heat-penetration", "heat_penetration_number^2 != k*rho*c", replay)
            # chords
            zs = np.linspace(-w / 2 * 1.2, w / 2 * 1.2, 241)
            hz = np.array([float(p.local_height(z)) for z in zs])
            if (hz > h * (1 + 1e-9) + 2.5e-12).any():
                ctx.violation("chord-exceeds-height", "local_height exceeds overall height", replay)
            if (hz[np.abs(zs) > w / 2 * (1 + 1e-9)] != 0).any():
                ctx.violation("chord-nonzero-outside", "local_height non-zero outside the width", replay)
            integ = _trapz(hz, zs)
            if _rel(integ, A) > 2e-2:
                ctx.violation("chord-integral", f"integral of local_height {integ} != area {A}", replay)
            ys = np.linspace(-h / 2 * 1.2, h / 2 * 1.2, 241)
            wy = np.array([float(p.local_width(y)) for y in ys])
            if (wy > w * (1 + 1e-9) + 2.5e-12).any():
                ctx.violation("chord-exceeds-width", "local_width exceeds overall width", replay)
            if (wy[np.abs(ys) > h / 2 * (1 + 1e-9)] != 0).any():
                ctx.violation("chord-nonzero-outside", "local_width non-zero outside the height", replay)
            if _rel(_trapz(wy, ys), A) > 2e-2:
                ctx.violation("chord-integral", f"integral of local_width != area {A}", replay)
        except Exception as ex:
            import traceback
            tb = traceback.extract_tb(ex.__traceback__)
            if any("/pyroll/" in f.filename for f in tb):
                ctx.violation("profile-hook-raises", f"{type(ex).__name__}: {ex}", replay)
            else:
                raise
        if len(ctx.samples) < 2:
            ctx.sample({"profile": kind, "args": s, "stresses": [a, b, c]})

    # ---- (b2) non-convex shapes (bounding box centred on the origin): chords ------------------------------
    from pyroll.core import Profile
    from shapely.geometry import Polygon
    from shapely.affinity import translate as _tr
    for i in range(ctx.budget(25, 800)):
        n = rng.randrange(5, 12)
        sc = math.exp(rng.uniform(-5, 0))
        pts = []
        for k in range(n):                                    # star-shaped polygon with alternating radii: non-convex
            ang = 2 * math.pi * k / n + rng.uniform(-0.2, 0.2) / n
            rad = sc * (rng.uniform(0.35, 0.6) if k % 2 else rng.uniform(0.8, 1.0))
            pts.append((rad * math.cos(ang), rad * math.sin(ang)))
        poly = Polygon(pts)
        if not poly.is_valid or poly.is_empty:
            continue
        b = poly.bounds
        poly = _tr(poly, xoff=-(b[0] + b[2]) / 2, yoff=-(b[1] + b[3]) / 2)
        replay = {"factory": "Profile.from_polygon", "points": [list(c) for c in poly.exterior.coords]}
        ctx.case(["star", n, round(sc, 9), [round(x, 9) for x, _ in pts[:3]]], nontrivial=not poly.equals(poly.convex_hull))
        ctx.count("profile:nonconvex")
        try:
            p = Profile.from_polygon(poly, classifiers={"star"})
            A, w, h = p.cross_section.area, p.width, p.height
            zs = np.linspace(-w / 2 * 1.1, w / 2 * 1.1, 801)
            hz = np.array([float(p.local_height(z)) for z in zs])
            ys = np.linspace(-h / 2 * 1.1, h / 2 * 1.1, 801)
            wy = np.array([float(p.local_width(y)) for y in ys])
            ew, eh, er = p.equivalent_width, p.equivalent_height, p.equivalent_radius
        except Exception as ex:
            import traceback
            if any("/pyroll/" in f.filename for f in traceback.extract_tb(ex.__traceback__)):
                ctx.violation("profile-hook-raises", f"{type(ex).__name__}: {ex}", replay)
                continue
            raise
        if (hz > h * (1 + 1e-9) + 2.5e-12).any() or (wy > w * (1 + 1e-9) + 2.5e-12).any():
            ctx.violation("chord-exceeds-extent", "a chord of a non-convex shape exceeds the overall height/width", replay)
        if (hz[np.abs(zs) > w / 2 * (1 + 1e-9)] != 0).any() or (wy[np.abs(ys) > h / 2 * (1 + 1e-9)] != 0).any():
            ctx.violation("chord-nonzero-outside", "chord non-zero outside the shape", replay)
        # chords are piecewise linear in the query coordinate between vertices: trapezoid error O(step * jump count)
        if _rel(_trapz(hz, zs), A) > 3e-2 or _rel(_trapz(wy, ys), A) > 3e-2:
            ctx.violation("chord-integral", f"chords of a non-convex shape integrate to {_trapz(hz, zs)} / {_trapz(wy, ys)}, area {A}", replay)
        if _rel(ew * eh, A) > tol or _rel(ew / eh, w / h) > tol or _rel(math.pi * er ** 2, A) > tol:
            ctx.violation("equivalent-rectangle-nonconvex", "equivalent rectangle/radius identities fail for a non-convex shape", replay)

    # ---- (c) thermal identities on real Roll and Profile objects, every read order ------------------
    _run_thermal(ctx)
    # ---- (c3) stress identities at every level (unit), values or hook functions -----------------------
    _run_stress(ctx)

    # ---- (d) solved roll passes: coefficient identities ---------------------------------------------
    from .common import solved_passes
    for desc, rp in solved_passes(ctx, ctx.budget(4, 60)):
        ctx.case(["pass", desc])
        ctx.count("solved-pass")
        replay = {"pass": desc}
        try:
            for q, a_, b_ in (("draught", "height", None), ("spread", "width", None)):
                o = getattr(rp.out_profile.equivalent_rectangle, a_)
                i_ = getattr(rp.in_profile.equivalent_rectangle, a_)
                co = getattr(rp, q)
                if _rel(co, o / i_) > tol:
                    ctx.violation(f"{q}-coefficient", f"{q}={co} != out/in={o / i_}", replay)
                if abs(getattr(rp, "abs_" + q) - (o - i_)) > tol * abs(i_):
                    ctx.violation(f"abs-{q}", f"abs_{q} != out-in", replay)
                if abs(getattr(rp, "rel_" + q) - (co - 1)) > 1e-8:
                    ctx.violation(f"rel-{q}", f"rel_{q}={getattr(rp, 'rel_' + q)} != {q}-1={co - 1}", replay)
                if abs(getattr(rp, "log_" + q) - math.log(co)) > 1e-9:
                    ctx.violation(f"log-{q}", f"log_{q} != log({q})", replay)
            el = rp.elongation
            if _rel(el, rp.in_profile.cross_section.area / rp.out_profile.cross_section.area) > tol:
                ctx.violation("elongation-coefficient", "elongation != A_in/A_out", replay)
            if abs(rp.log_elongation - math.log(el)) > 1e-9:
                ctx.violation("log-elongation", "log_elongation != log(elongation)", replay)
            if abs(rp.rel_elongation - (el - 1)) > 1e-6 * max(1, abs(el)) and rp.in_profile.length > 0:
                ctx.violation("rel-elongation", f"rel_elongation={rp.rel_elongation} != elongation-1={el - 1}", replay)
            if abs(rp.log_draught + rp.log_spread + rp.log_elongation) > 1e-8:
                ctx.violation("log-sum", f"log coefficients sum to {rp.log_draught + rp.log_spread + rp.log_elongation}", replay)
            st = math.sqrt(2 / 3 * (rp.log_elongation ** 2 + rp.log_spread ** 2 + rp.log_draught ** 2))
            if abs(rp.strain - st) > 1e-9 * max(1, st):
                ctx.violation("pass-strain", f"strain={rp.strain} != equivalent of the log coefficients {st}", replay)
        except Exception as ex:
            import traceback
            tb = traceback.extract_tb(ex.__traceback__)
            if any("/pyroll/" in f.filename for f in tb):
                ctx.violation("pass-hook-raises", f"{type(ex).__name__}: {ex}", replay)
            else:
                raise

    # ---- (e) coefficient links on passes with overridden / explicitly supplied coefficients -----------
    _run_override_passes(ctx)
    _run_stub_passes(ctx)

    # ---- (b3) equivalent rectangle / radius with given width / height ------------------------------------------------
    _run_rect(ctx)

    # ---- (f) used objects: profiles and passes with a history ----------------------------------------------------------
    _run_chord_histories(ctx)
    _run_resolve_passes(ctx)
