"""C17 - derived profile, stress and deformation quantities obey their identities.

Tie: T (the hook implementations are re-translated to Lean `Expr` on every run -> lean/PyrollModel/Gen/C17.lean, the
theorems of lean/PyrollProps/C17.lean are re-checked against them) + K (each generated formula is evaluated over Float
by the Lean driver and compared with the python function it came from; the oracle checks the identities on real
Profile objects and solved roll passes).
"""
import math

from ..translate import gen
from .. import stub

ID = "C17"
LEAN_MODULES = ["PyrollProps.C17"]
MODEL = "c17"
MODEL_MODULES = ["PyrollModel.Gen.C17", "PyrollModel.EvalDriver"]
RULE = ("(a) every translated formula x random positive environments, Lean Float evaluation vs the python function; "
        "(b) stand-alone real Profile objects with random principal stresses / material data / shapes and the identities of "
        "the property checked directly; (c) chords of random convex and non-convex polygons integrated numerically; "
        "(d) solved roll passes. non-trivial = the case has all-different non-zero inputs; distinct by rounded input tuple.")
ASSUMPTIONS = [
    "IEEE rounding: identities are theorems over the reals; on floats they are checked with rtol 1e-9",
    "shapely area/bounds/intersection are parameters: chord identities are checked numerically only (partial)",
]

P = "profile/hookimpls.py"
D = "roll_pass/hookimpls/deformation_unit.py"
R = "roll/hookimpls.py"
SELECTION = [
    ("equivalent_height", P, "equivalent_height"),
    ("equivalent_width", P, "equivalent_width"),
    ("equivalent_radius", P, "equivalent_radius"),
    ("hydrostatic_stress", P, "hydrostatic_stress"),
    ("equivalent_stress", P, "equivalent_stress"),
    ("thermal_diffusivity", P, "thermal_diffusivity"),
    ("heat_penetration_number", P, "heat_penetration_number"),
    ("roll_thermal_diffusivity", R, "thermal_diffusivity"),
    ("roll_heat_penetration_number", R, "heat_penetration_number"),
    ("draught", D, "draught"), ("spread", D, "spread"), ("elongation", D, "elongation"),
    ("log_draught", D, "log_draught"), ("log_spread", D, "log_spread"), ("log_elongation", D, "log_elongation"),
    ("abs_draught", D, "abs_draught"), ("abs_spread", D, "abs_spread"), ("abs_elongation", D, "abs_elongation"),
    ("rel_draught", D, "rel_draught"), ("rel_spread", D, "rel_spread"), ("rel_elongation", D, "rel_elongation"),
    ("strain", D, "strain"),
]


def translate(ctx):
    ctx.found = gen.emit_impl_module(ctx, ID, SELECTION)


def _sampler(rng, var):
    return math.exp(rng.uniform(-3, 3))


def _profiles(ctx, n):
    from pyroll.core import Profile
    rng = ctx.rng
    for i in range(n):
        kind = rng.choice(["round", "square", "box", "diamond"])
        s = math.exp(rng.uniform(-6, 1))
        kw = dict(longitudinal_stress=rng.uniform(-500, 500), altitudinal_stress=rng.uniform(-500, 500),
                  latitudinal_stress=rng.uniform(-500, 500), thermal_conductivity=math.exp(rng.uniform(0, 5)),
                  density=math.exp(rng.uniform(5, 10)), specific_heat_capacity=math.exp(rng.uniform(4, 8)))
        mode = rng.random()
        if mode < 0.15:
            v = kw["longitudinal_stress"]
            kw["altitudinal_stress"] = kw["latitudinal_stress"] = v          # hydrostatic
        elif mode < 0.35:
            ax = rng.choice(["longitudinal_stress", "altitudinal_stress", "latitudinal_stress"])
            for k in ("longitudinal_stress", "altitudinal_stress", "latitudinal_stress"):
                if k != ax:
                    kw[k] = 0.0                                              # uniaxial
        if kind == "round":
            args = dict(radius=s)
        elif kind == "square":
            args = dict(side=s, corner_radius=s * rng.uniform(0, 0.2))
        elif kind == "box":
            args = dict(height=s, width=s * rng.uniform(0.3, 3), corner_radius=s * rng.uniform(0, 0.1))
        else:
            args = dict(height=s, width=s * rng.uniform(0.5, 3), corner_radius=s * rng.uniform(0, 0.1))
        try:
            p = getattr(Profile, kind)(**args, **kw)
        except Exception:
            continue
        yield kind, args, kw, mode, p


def _trapz(y, x):
    return float(((y[1:] + y[:-1]) / 2 * (x[1:] - x[:-1])).sum())


def _rel(a, b):
    return abs(a - b) / max(abs(a), abs(b), 1e-300)


def run(ctx):
    import numpy as np
    rng = ctx.rng
    # ---- (a) generated formulas vs the python functions they came from ----------------------------
    found = getattr(ctx, "found", None)
    if found is None:
        class _C:  # extended search re-enters run() without translate()
            tie_breaks, notes = [], {}
        from ..translate import gen as _g
        found = {}
        idx = _g.hookimpl_index(sorted({rel for (_, rel, _) in SELECTION}))
        for (name, rel, fn) in SELECTION:
            if (rel, fn) in idx:
                found[name] = idx[(rel, fn)]
    if getattr(ctx, "model_available", True):
        stub.formula_correspondence(ctx, MODEL, found, _sampler, n_each=ctx.budget(8, 200))

    # ---- (b) oracle on real stand-alone profiles ----------------------------------------------------
    tol = 1e-9
    for kind, s, kw, mode, p in _profiles(ctx, ctx.budget(150, 6000)):
        a, b, c = kw["longitudinal_stress"], kw["altitudinal_stress"], kw["latitudinal_stress"]
        ctx.case(["profile", kind, sorted(s.items()), round(a, 6), round(b, 6), round(c, 6)],
                 nontrivial=len({a, b, c}) == 3)
        ctx.count("profile:" + kind)
        replay = {"factory": "Profile." + kind, "args": s, "kwargs": kw}
        try:
            A, w, h = p.cross_section.area, p.width, p.height
            ew, eh, er = p.equivalent_width, p.equivalent_height, p.equivalent_radius
            if _rel(ew * eh, A) > tol:
                ctx.violation("equivalent-rectangle-area", f"equivalent_width*equivalent_height={ew * eh} != area {A}", replay)
            if _rel(ew / eh, w / h) > tol:
                ctx.violation("equivalent-rectangle-ratio", f"ew/eh={ew / eh} != w/h={w / h}", replay)
            if _rel(math.pi * er ** 2, A) > tol:
                ctx.violation("equivalent-radius-area", f"pi*r_eq^2={math.pi * er ** 2} != area {A}", replay)
            rect = p.equivalent_rectangle
            if _rel(rect.area, A) > 1e-7 or _rel(rect.width / rect.height, w / h) > 1e-7:
                ctx.violation("equivalent-rectangle-shape", "equivalent_rectangle polygon has wrong area or ratio", replay)
            hs, es = p.hydrostatic_stress, p.equivalent_stress
            if abs(hs - (a + b + c) / 3) > tol * max(1, abs(a), abs(b), abs(c)):
                ctx.violation("hydrostatic-mean", f"hydrostatic_stress={hs} != mean {(a + b + c) / 3}", replay)
            vm = math.sqrt(0.5 * ((a - b) ** 2 + (b - c) ** 2 + (c - a) ** 2))
            if abs(es - vm) > tol * max(1, abs(vm)):
                ctx.violation("von-mises-value", f"equivalent_stress={es} != von Mises {vm}", replay)
            from pyroll.core import Profile
            for perm in ((b, c, a), (c, a, b), (b, a, c)):
                q = Profile.round(radius=1, longitudinal_stress=perm[0], altitudinal_stress=perm[1],
                                  latitudinal_stress=perm[2])
                if abs(q.equivalent_stress - es) > tol * max(1, abs(es)):
                    ctx.violation("von-mises-permutation", f"equivalent_stress changes under permutation {perm}: "
                                  f"{q.equivalent_stress} vs {es}", replay)
            if mode < 0.15 and abs(es) > 1e-9 * max(1, abs(a)):
                ctx.violation("von-mises-hydrostatic", f"hydrostatic state gives equivalent_stress={es}", replay)
            if 0.15 <= mode < 0.35:
                sv = a + b + c
                if abs(es - abs(sv)) > tol * max(1, abs(sv)):
                    ctx.violation("von-mises-uniaxial", f"uniaxial s={sv} gives equivalent_stress={es}", replay)
            k_, rho, cp = kw["thermal_conductivity"], kw["density"], kw["specific_heat_capacity"]
            if _rel(p.thermal_diffusivity * rho * cp, k_) > tol:
                ctx.violation("thermal-diffusivity", "thermal_diffusivity*density*heat_capacity != conductivity", replay)
            if _rel(p.heat_penetration_number ** 2, k_ * rho * cp) > tol:
                ctx.violation("heat-penetration", "heat_penetration_number^2 != k*rho*c", replay)
            # chords
            zs = np.linspace(-w / 2 * 1.2, w / 2 * 1.2, 241)
            hz = np.array([float(p.local_height(z)) for z in zs])
            if (hz > h * (1 + 1e-9) + 2.5e-12).any():
                ctx.violation("chord-exceeds-height", "local_height exceeds overall height", replay)
            if (hz[np.abs(zs) > w / 2 * (1 + 1e-9)] != 0).any():
                ctx.violation("chord-nonzero-outside", "local_height non-zero outside the width", replay)
            integ = _trapz(hz, zs)
            if _rel(integ, A) > 2e-2:
                ctx.violation("chord-integral", f"integral of local_height {integ} != area {A}", replay)
            ys = np.linspace(-h / 2 * 1.2, h / 2 * 1.2, 241)
            wy = np.array([float(p.local_width(y)) for y in ys])
            if (wy > w * (1 + 1e-9) + 2.5e-12).any():
                ctx.violation("chord-exceeds-width", "local_width exceeds overall width", replay)
            if (wy[np.abs(ys) > h / 2 * (1 + 1e-9)] != 0).any():
                ctx.violation("chord-nonzero-outside", "local_width non-zero outside the height", replay)
            if _rel(_trapz(wy, ys), A) > 2e-2:
                ctx.violation("chord-integral", f"integral of local_width != area {A}", replay)
        except Exception as ex:
            import traceback
            tb = traceback.extract_tb(ex.__traceback__)
            if any("/pyroll/" in f.filename for f in tb):
                ctx.violation("profile-hook-raises", f"{type(ex).__name__}: {ex}", replay)
            else:
                raise
        if len(ctx.samples) < 2:
            ctx.sample({"profile": kind, "args": s, "stresses": [a, b, c]})

    # ---- (b2) non-convex shapes (bounding box centred on the origin): chords ------------------------------
    from pyroll.core import Profile
    from shapely.geometry import Polygon
    from shapely.affinity import translate as _tr
    for i in range(ctx.budget(25, 800)):
        n = rng.randrange(5, 12)
        sc = math.exp(rng.uniform(-5, 0))
        pts = []
        for k in range(n):                                    # star-shaped polygon with alternating radii: non-convex
            ang = 2 * math.pi * k / n + rng.uniform(-0.2, 0.2) / n
            rad = sc * (rng.uniform(0.35, 0.6) if k % 2 else rng.uniform(0.8, 1.0))
            pts.append((rad * math.cos(ang), rad * math.sin(ang)))
        poly = Polygon(pts)
        if not poly.is_valid or poly.is_empty:
            continue
        b = poly.bounds
        poly = _tr(poly, xoff=-(b[0] + b[2]) / 2, yoff=-(b[1] + b[3]) / 2)
        replay = {"factory": "Profile.from_polygon", "points": [list(c) for c in poly.exterior.coords]}
        ctx.case(["star", n, round(sc, 9), [round(x, 9) for x, _ in pts[:3]]], nontrivial=not poly.equals(poly.convex_hull))
        ctx.count("profile:nonconvex")
        try:
            p = Profile.from_polygon(poly, classifiers={"star"})
            A, w, h = p.cross_section.area, p.width, p.height
            zs = np.linspace(-w / 2 * 1.1, w / 2 * 1.1, 801)
            hz = np.array([float(p.local_height(z)) for z in zs])
            ys = np.linspace(-h / 2 * 1.1, h / 2 * 1.1, 801)
            wy = np.array([float(p.local_width(y)) for y in ys])
            ew, eh, er = p.equivalent_width, p.equivalent_height, p.equivalent_radius
        except Exception as ex:
            import traceback
            if any("/pyroll/" in f.filename for f in traceback.extract_tb(ex.__traceback__)):
                ctx.violation("profile-hook-raises", f"{type(ex).__name__}: {ex}", replay)
                continue
            raise
        if (hz > h * (1 + 1e-9) + 2.5e-12).any() or (wy > w * (1 + 1e-9) + 2.5e-12).any():
            ctx.violation("chord-exceeds-extent", "a chord of a non-convex shape exceeds the overall height/width", replay)
        if (hz[np.abs(zs) > w / 2 * (1 + 1e-9)] != 0).any() or (wy[np.abs(ys) > h / 2 * (1 + 1e-9)] != 0).any():
            ctx.violation("chord-nonzero-outside", "chord non-zero outside the shape", replay)
        # chords are piecewise linear in the query coordinate between vertices: trapezoid error O(step * jump count)
        if _rel(_trapz(hz, zs), A) > 3e-2 or _rel(_trapz(wy, ys), A) > 3e-2:
            ctx.violation("chord-integral", f"chords of a non-convex shape integrate to {_trapz(hz, zs)} / {_trapz(wy, ys)}, area {A}", replay)
        if _rel(ew * eh, A) > tol or _rel(ew / eh, w / h) > tol or _rel(math.pi * er ** 2, A) > tol:
            ctx.violation("equivalent-rectangle-nonconvex", "equivalent rectangle/radius identities fail for a non-convex shape", replay)

    # ---- (c) roll: thermal identities ---------------------------------------------------------------
    from pyroll.core import Roll, BoxGroove
    g = BoxGroove(r1=1e-3, r2=2e-3, depth=5e-3, usable_width=20e-3, ground_width=15e-3)
    for i in range(ctx.budget(20, 500)):
        k_, rho, cp = (math.exp(rng.uniform(0, 5)), math.exp(rng.uniform(5, 10)), math.exp(rng.uniform(4, 8)))
        r = Roll(groove=g, nominal_radius=0.1, thermal_conductivity=k_, density=rho, specific_heat_capacity=cp)
        ctx.case(["roll", round(k_, 6), round(rho, 6), round(cp, 6)])
        if _rel(r.thermal_diffusivity * rho * cp, k_) > tol or _rel(r.heat_penetration_number ** 2, k_ * rho * cp) > tol:
            ctx.violation("roll-thermal", "roll thermal diffusivity / heat penetration identity fails",
                          {"k": k_, "rho": rho, "c": cp})

    # ---- (d) solved roll passes: coefficient identities ---------------------------------------------
    from .common import solved_passes
    for desc, rp in solved_passes(ctx, ctx.budget(4, 60)):
        ctx.case(["pass", desc])
        ctx.count("solved-pass")
        replay = {"pass": desc}
        try:
            for q, a_, b_ in (("draught", "height", None), ("spread", "width", None)):
                o = getattr(rp.out_profile.equivalent_rectangle, a_)
                i_ = getattr(rp.in_profile.equivalent_rectangle, a_)
                co = getattr(rp, q)
                if _rel(co, o / i_) > tol:
                    ctx.violation(f"{q}-coefficient", f"{q}={co} != out/in={o / i_}", replay)
                if abs(getattr(rp, "abs_" + q) - (o - i_)) > tol * abs(i_):
                    ctx.violation(f"abs-{q}", f"abs_{q} != out-in", replay)
                if abs(getattr(rp, "rel_" + q) - (co - 1)) > 1e-8:
                    ctx.violation(f"rel-{q}", f"rel_{q}={getattr(rp, 'rel_' + q)} != {q}-1={co - 1}", replay)
                if abs(getattr(rp, "log_" + q) - math.log(co)) > 1e-9:
                    ctx.violation(f"log-{q}", f"log_{q} != log({q})", replay)
            el = rp.elongation
            if _rel(el, rp.in_profile.cross_section.area / rp.out_profile.cross_section.area) > tol:
                ctx.violation("elongation-coefficient", "elongation != A_in/A_out", replay)
            if abs(rp.log_elongation - math.log(el)) > 1e-9:
                ctx.violation("log-elongation", "log_elongation != log(elongation)", replay)
            if abs(rp.rel_elongation - (el - 1)) > 1e-6 * max(1, abs(el)) and rp.in_profile.length > 0:
                ctx.violation("rel-elongation", f"rel_elongation={rp.rel_elongation} != elongation-1={el - 1}", replay)
            if abs(rp.log_draught + rp.log_spread + rp.log_elongation) > 1e-8:
                ctx.violation("log-sum", f"log coefficients sum to {rp.log_draught + rp.log_spread + rp.log_elongation}", replay)
            st = math.sqrt(2 / 3 * (rp.log_elongation ** 2 + rp.log_spread ** 2 + rp.log_draught ** 2))
            if abs(rp.strain - st) > 1e-9 * max(1, st):
                ctx.violation("pass-strain", f"strain={rp.strain} != equivalent of the log coefficients {st}", replay)
        except Exception as ex:
            import traceback
            tb = traceback.extract_tb(ex.__traceback__)
            if any("/pyroll/" in f.filename for f in tb):
                ctx.violation("pass-hook-raises", f"{type(ex).__name__}: {ex}", replay)
            else:
                raise
