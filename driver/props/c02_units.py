"""C02, third sentence - "root hooks evaluated by the solver become explicit values of their object and therefore survive
re-evaluation and hand-over" - on a stream of REAL solved units (imported by driver/props/c02.py).

A case is a JSON-able `spec` (seed independent, re-executable with `./check C02 --replay <file>`): an incoming profile and a
tree of units - two-roll and three-roll passes of every groove family that solves on the line, given as the core classes
(`TwoRollPass`, `ThreeRollPass`) and as throw-away classes made with `type()` that override nothing of the solution procedure:
subclasses of the core pass classes, a direct subclass of `SymmetricRollPass` that takes geometry, nested classes and hook
implementations of a donor pass class (`sym-two`, `sym-three`) and a direct subclass of `BaseRollPass` with a constructor of its
own (`base-two`) -, transports, cooling pipes, rotators, disk elements, nested sequences; optionally PLUG-IN ROOT HOOKS put into
`pyroll.core.root_hooks` through `insert_before` / `insert_after` / `append` / `add` for the extent of the case (removed in
`finally`, the list is compared with its snapshot afterwards): hooks the core declares on unit / profile / roll classes at
every level of the hierarchy (`Roll`, `BaseRollPass.Roll`, `SymmetricRollPass.Roll`, `TwoRollPass.Roll`, `ThreeRollPass.Roll`, ...)
and NEW hooks declared on throw-away pass classes and on their nested roll / profile classes with a constant implementation.

ORACLE (written from the property statement; nothing here looks at how `get_root_hook_results` is implemented).  After
`solve`, for EVERY object the solution procedure works on - the solved unit, its in profile, its out profile, its working
roll(s), recursively its sub units (the units of a sequence, the disk elements of a pass / transport) with their profiles -
and for every entry of `root_hooks` whose owner is a class of the object's MRO:
  (a) the value is EXPLICIT: the name is in `__dict__`, `has_set` is true                    `units-root-not-explicit:<role>`
      (a root hook without any value on a solved unit is counted, not reported: the solver raises on it);
  (b) a read returns that explicit object; a root hook with a KNOWN computation (constant implementation of a plug-in hook, a
      constant `tryfirst` implementation put over a numeric core root hook before the solve) holds exactly that constant
                                                        `units-root-read-not-explicit:<role>`, `units-root-value-not-computed:<role>`;
  (c) `reevaluate_cache()` leaves every public explicit value the identical object, in the same order
                                                        `units-reevaluate-changed-explicit:<role>`, `units-reevaluate-raised:<role>`;
  (d) another implementation registered LATER (`tryfirst`, yielding a different value of the same type) followed by
      `reevaluate_cache()` does not change what a read returns              `units-root-changed-by-later-registration:<role>`;
  (e) hand-over: what the next unit's in profile received under every public explicit name of the out profile is the identical
      object (a rotator run as pre-processor legitimately re-evaluates the root hooks of ITS out profile: those names must
      still be explicit on the receiver), the first sub unit received the explicit values of its parent's in profile, and no
      merely remembered value arrives as an explicit one
                                  `units-handover-lost:<role>`, `units-handover-changed:<role>`, `units-handover-cache-entry`;
  (f) ONE further call of the unit's `get_root_hook_results()` (= the root phase of one more iteration; observed by wrapping
      `HookHost.evaluate_and_set_hooks` for the extent of the call) visits every one of these objects
                                                                                           `units-root-phase-skips:<role>`.
The working roll of a `base-two` pass is constructed by the harness class, not by the library; pyroll-core leaves the root
evaluation of rolls to the classes that construct them, so its clauses (a), (d), (f) are counted as an observation
(`observed:roll-of-harness-made-pass-class-not-root-evaluated`), not reported.

CORRESPONDENCE (K) with `lean/PyrollModel/RootUnits.lean` (tables re-read from the source): the roles visited by that further
call, the root hooks that belong to the class of every object (on the pristine list) and the classes of the objects the
library constructs are compared with `phase` / `roots` / `objects` of the Lean driver `lean/Drivers/c02units.lean` (the exact
sequence of visits, repetitions included: the roll of a two-roll pass is visited TWICE per call on the source as it is - both
sides of `exactly_once_iff_no_repeated_roll_statement` are false; recorded in the evidence, not demanded either way).
"""
import json

from . import common  # noqa: F401  (silences the pyroll loggers)

MODEL = "c02units"

STORES = [("_first_functions", dict(tryfirst=True)), ("_functions", {}), ("_last_functions", dict(trylast=True)),
          ("_first_wrappers", dict(tryfirst=True, wrapper=True)), ("_wrappers", dict(wrapper=True)),
          ("_last_wrappers", dict(trylast=True, wrapper=True))]
NESTED = ("Profile", "InProfile", "OutProfile", "Roll", "DiskElement")

# pass class kinds: (base the throw-away class derives from | None = the core class itself, donor / core class)
PASS_KINDS = {
    "two": (None, "TwoRollPass"), "three": (None, "ThreeRollPass"),
    "two-sub": ("TwoRollPass", None), "three-sub": ("ThreeRollPass", None),
    "sym-two": ("SymmetricRollPass", "TwoRollPass"), "sym-three": ("SymmetricRollPass", "ThreeRollPass"),
    "base-two": ("BaseRollPass", "TwoRollPass"),
}
TWO_KINDS = ["two", "two", "two-sub", "sym-two", "base-two"]
THREE_KINDS = ["three", "three", "three-sub", "sym-three"]

# hooks the core declares and computes on solved units which a plug-in may make root hooks: owner path -> names
PLUG_CORE = {
    "roll": {"Roll": ["working_radius", "min_radius"],
             "BaseRollPass.Roll": ["contact_length", "contact_area", "working_velocity"],
             "SymmetricRollPass.Roll": ["contact_length", "working_radius"],
             "TwoRollPass.Roll": ["contact_area", "contact_length"],
             "ThreeRollPass.Roll": ["contact_area", "contact_length"]},
    "unit": {"BaseRollPass": ["spread", "elongation", "draught", "velocity"],
             "SymmetricRollPass": ["elongation", "spread"],
             "TwoRollPass": ["usable_width", "height"], "ThreeRollPass": ["usable_width", "height"],
             "PassSequence": ["elongation"]},
    "profile": {"BaseRollPass.OutProfile": ["width", "height", "equivalent_width"],
                "BaseRollPass.InProfile": ["width", "equivalent_height"],
                "Unit.OutProfile": ["width", "height"]},
}
# numeric core root hooks over which a constant `tryfirst` implementation may be put before the solve ("known computation")
OVERRIDABLE = {"roll": ["roll_torque"], "unit": ["roll_force", "power", "strain_rate", "elongation_efficiency"],
               "out_profile": ["filling_error", "cross_section_error", "cross_section_filling_ratio"]}


# ---------------------------------------------------------------------------------------------------------------------------
# building the objects of a spec
# ---------------------------------------------------------------------------------------------------------------------------
def _groove(spec, three):
    import pyroll.core as pc
    s, j, k = spec.get("scale", 1.0), spec.get("j", [1.0, 1.0]), spec["groove"]
    if three:
        if k == "oval":
            return pc.CircularOvalGroove(depth=8e-3 * s * j[0], r1=6e-3 * s, r2=40e-3 * s * j[1], pad_angle=30)
        return pc.RoundGroove(r1=3e-3 * s, r2=25e-3 * s * j[1], depth=11e-3 * s, pad_angle=30)
    if k == "oval":
        return pc.CircularOvalGroove(depth=8e-3 * s * j[0], r1=6e-3 * s, r2=40e-3 * s * j[1])
    if k == "round":
        return pc.RoundGroove(r1=1e-3 * s, r2=12.5e-3 * s * j[1], depth=11.5e-3 * s)
    if k == "box":
        return pc.BoxGroove(r1=2e-3 * s, r2=4e-3 * s, depth=10e-3 * s * j[0], usable_width=30e-3 * s, ground_width=24e-3 * s)
    if k == "diamond":
        return pc.DiamondGroove(r1=3e-3 * s, r2=5e-3 * s, usable_width=38e-3 * s * j[1], tip_depth=12e-3 * s)
    if k == "square":
        return pc.SquareGroove(r1=3e-3 * s, r2=4e-3 * s, usable_width=30e-3 * s * (0.97 + 0.06 * (j[1] - 0.9) / 0.3),
                               tip_depth=15e-3 * s)
    return pc.SwedishOvalGroove(r1=3e-3 * s, r2=6e-3 * s, depth=7e-3 * s, usable_width=36e-3 * s, ground_width=20e-3 * s)


def graft(name, base, donors, with_init):
    """a pass class derived from `base` that overrides NOTHING of the solution procedure: it takes the geometry properties, the
    nested classes, the hook declarations and the hook implementations of the donor classes (what a plug-in that defines a new
    kind of pass would write down again)"""
    from pyroll.core.hooks import Hook
    ns = {}
    for d in donors:
        for n, v in d.__dict__.items():
            if n in ("contour_lines", "classifiers", "disk_elements") + NESTED:
                ns[n] = v
            elif isinstance(v, Hook) and not any(n in k.__dict__ for k in base.__mro__):
                ns[n] = Hook()                               # a hook only the donor declares (inscribed_circle_diameter)
    if with_init:
        def __init__(self, roll, label="", **kwargs):
            base.__init__(self, label, **kwargs)
            self.roll = self.Roll(roll, self)
        ns["__init__"] = __init__
    cls = type(name, (base,), ns)
    for d in donors:
        for hname, hook in list(d.__dict__.items()):
            if isinstance(hook, Hook) and hook.owner is d:
                for store, flags in STORES:
                    for hf in getattr(hook, store):
                        getattr(cls, hname).add_function(hf.function, **flags)
    return cls


def pass_class(kind, probes, tag):
    """-> (class, [(role, Hook object, constant)] of the probe root hooks declared on it)"""
    import pyroll.core as pc
    from pyroll.core.hooks import Hook
    base, donor = PASS_KINDS[kind]
    if base is None:
        cls = getattr(pc, donor)
    elif donor is None:
        cls = type(f"C02{tag}", (getattr(pc, base),), {})
    elif base == "SymmetricRollPass":
        cls = graft(f"C02{tag}", pc.SymmetricRollPass, [getattr(pc, donor)], False)
    else:
        cls = graft(f"C02{tag}", pc.BaseRollPass, [pc.SymmetricRollPass, getattr(pc, donor)], True)
    made = []
    if probes:
        ns = {}
        for role, value in probes:
            if role == "unit":
                ns["c02_probe_unit"] = Hook()
            else:
                nested = {"roll": "Roll", "out_profile": "OutProfile", "in_profile": "InProfile"}[role]
                ns[nested] = type(nested, (getattr(cls, nested),), {f"c02_probe_{role}": Hook()})
        cls = type(f"C02{tag}P", (cls,), ns)
        for role, value in probes:
            owner = cls if role == "unit" else getattr(cls, {"roll": "Roll", "out_profile": "OutProfile",
                                                            "in_profile": "InProfile"}[role])
            hook = getattr(owner, f"c02_probe_{role}")
            hook.add_function(lambda self, _v=value: _v)
            made.append((role, hook, value))
    return cls, made


def build_unit(spec, path, made):
    """-> unit object; `made[path]` = {"cls": kind, "probes": [(role, hook, constant)]} for passes"""
    import pyroll.core as pc
    t = spec["t"]
    kw = {}
    if spec.get("disks"):
        kw["disk_element_count"] = spec["disks"]
    label = "u" + ".".join(map(str, path))
    if t == "pass":
        three = PASS_KINDS[spec["cls"]][1] == "ThreeRollPass" or spec["cls"] == "three-sub"
        cls, probes = pass_class(spec["cls"], [tuple(p) for p in spec.get("probes", [])], "N" + "_".join(map(str, path)))
        made[tuple(path)] = {"cls": spec["cls"], "probes": probes, "class": cls}
        s = spec.get("scale", 1.0)
        roll = pc.Roll(groove=_groove(spec, three), nominal_radius=160e-3 * s, rotational_frequency=1)
        if spec.get("rotation") is False:
            kw["rotation"] = False
        return cls(label=label, roll=roll, gap=2e-3 * s * spec.get("gap", 1.0), **kw)
    if t in ("transport", "pipe"):
        for k in ("duration", "length"):
            if k in spec:
                kw[k] = spec[k]
        if t == "pipe":
            return pc.CoolingPipe(label=label, inner_radius=0.05, coolant_volume_flux=1e-3, **kw)
        return pc.Transport(label=label, **kw)
    if t == "rotator":
        return pc.Rotator(label=label, rotation=spec.get("rotation", 90))
    if t == "seq":
        return pc.PassSequence([build_unit(u, path + [k], made) for k, u in enumerate(spec["units"])], label=label)
    raise ValueError(t)


def build_in_profile(spec):
    import pyroll.core as pc
    kw = dict(temperature=1200 + 273.15, strain=0, material=["C45", "steel"], flow_stress=100e6, density=7.5e3,
              specific_heat_capacity=690, length=1.0)
    s, kind = spec["size"], spec["kind"]
    if kind == "round":
        return pc.Profile.round(diameter=s, **kw)
    if kind == "square":
        return pc.Profile.square(side=s * 0.8, corner_radius=s * 0.05, **kw)
    if kind == "box":
        return pc.Profile.box(height=s * 0.9, width=s * 0.8, corner_radius=s * 0.05, **kw)
    return pc.Profile.diamond(height=s * 0.8, width=s * 1.1, corner_radius=s * 0.05, **kw)


def core_class(path):
    import pyroll.core as pc
    obj = pc
    for p in path.split("."):
        obj = getattr(obj, p)
    return obj


# ---------------------------------------------------------------------------------------------------------------------------
# the objects the solution procedure works on (from the statement: unit, profiles, working roll(s), sub units)
# ---------------------------------------------------------------------------------------------------------------------------
def solver_objects(unit, path=(), disk=False):
    """yield (path, role, role kind, object, owning unit)"""
    from pyroll.core import Roll
    pre = "disk-" if disk else ""
    yield path, "unit", pre + "unit", unit, unit
    yield path, "in_profile", pre + "in_profile", unit.in_profile, unit
    yield path, "out_profile", pre + "out_profile", unit.out_profile, unit
    for k, v in list(unit.__dict__.items()):
        if isinstance(v, Roll) and not k.startswith("_"):
            yield path, k, pre + "roll", v, unit
    from pyroll.core import PassSequence
    for k, s in enumerate(unit.subunits):
        yield from solver_objects(s, path + (k,), disk=disk or not isinstance(unit, PassSequence))


def root_names(o):
    from pyroll.core import root_hooks
    out = []
    for h in list(root_hooks):
        if h.owner in type(o).__mro__ and h.name not in out:
            out.append(h.name)
    return out


def public(d):
    return {k: v for k, v in d.items() if not k.startswith("_")}


def marker_for(v):
    """a DIFFERENT value of the same type as `v` (what another implementation registered later would yield), or None"""
    import numbers
    import numpy as np
    if isinstance(v, bool) or v is None or callable(v):
        return None
    if isinstance(v, (numbers.Real, np.floating, np.integer)):
        return float(v) * 1.5 + 1.0
    if isinstance(v, np.ndarray) and v.dtype.kind == "f":
        return v * 1.5 + 1.0
    if isinstance(v, (set, frozenset)):
        return set(v) | {"c02-marker"}
    try:
        from shapely.geometry.base import BaseGeometry
        from shapely.affinity import scale
        if isinstance(v, BaseGeometry) and not v.is_empty:
            return scale(v, 1.01, 1.01, origin=(0, 0))
    except ImportError:
        pass
    return None


def has_value(ctx, o, name):
    """`o.has_value(name)`; a computation that raises something else than AttributeError inside pyroll = no value (counted)"""
    try:
        return o.has_value(name)
    except Exception as ex:
        if not _from_pyroll(ex):
            raise
        ctx.count("units-has-value-raised:" + type(ex).__name__)
        return False


def describe(o):
    return type(o).__qualname__ + "[" + " < ".join(k.__qualname__ for k in type(o).__mro__[1:4]) + "]"


def _from_pyroll(ex):
    import traceback
    tb = traceback.extract_tb(ex.__traceback__)
    return any("/pyroll/" in f.filename for f in tb[-6:])


# ---------------------------------------------------------------------------------------------------------------------------
# one case
# ---------------------------------------------------------------------------------------------------------------------------
class Skip(Exception):
    """the case could not be built / solved (not this property's business); counted"""


def run_units_case(ctx, spec, want_obs=False):
    """-> (problems [(key, text, failing)], observations for K {"phases": [(class chain, roles)], "objects": [...]})
    Everything registered / inserted is taken back in `finally`."""
    import pyroll.core as pc
    from pyroll.core import root_hooks
    from pyroll.core.hooks import HookHost
    problems, obs = [], {"phases": [], "objects": []}
    snapshot = list(root_hooks)
    inserted, registered = [], []
    try:
        # ---- build -----------------------------------------------------------------------------------------------------
        made = {}
        try:
            top = build_unit(spec["top"], [], made)
            ip = build_in_profile(spec["in"])
        except Exception as ex:
            if _from_pyroll(ex):
                raise Skip("build:" + type(ex).__name__)
            raise
        # ---- plug-in root hooks ------------------------------------------------------------------------------------------
        plug_hooks = []
        for p in spec.get("plug", []):
            if p["what"] == "core":
                owner = core_class(p["owner"])
                hook = getattr(owner, p["name"])
                const = None
            else:
                m = made.get(tuple(p["path"]))
                cand = [x for x in (m["probes"] if m else []) if x[0] == p["role"]]
                if not cand:
                    continue
                _, hook, const = cand[0]
            pos = snapshot[p["pos"] % len(snapshot)]
            if p["how"] == "before":
                root_hooks.insert_before(pos, hook)
            elif p["how"] == "after":
                root_hooks.insert_after(pos, hook)
            elif p["how"] == "add":
                root_hooks.add(hook)
            else:
                root_hooks.append(hook)
            inserted.append(hook)
            plug_hooks.append((hook, const))
        # ---- a known computation over a numeric core root hook ---------------------------------------------------------------
        over = spec.get("override")
        over_target = None
        if over:
            m = made.get(tuple(over["path"]))
            if m is not None:
                cls = m["class"]
                owner = cls if over["role"] == "unit" else getattr(cls, {"roll": "Roll", "out_profile": "OutProfile"}[over["role"]])
                hook = getattr(owner, over["name"])
                hf = hook.add_function(lambda self, _v=over["value"]: _v, tryfirst=True)
                registered.append((hook, hf))
                over_target = (owner, over["name"], over["value"])
        # ---- solve -----------------------------------------------------------------------------------------------------
        try:
            top.solve(ip)
        except Exception as ex:
            if _from_pyroll(ex) or isinstance(ex, RuntimeError):
                raise Skip("solve:" + type(ex).__name__)
            raise
        objects = list(solver_objects(top))

        def demanded(path, rk, unit):
            """is the object one the LIBRARY made the unit work on? (the roll of a harness-made BaseRollPass class is not)"""
            m = made.get(tuple(path))
            return not (rk.endswith("roll") and m is not None and m["cls"] == "base-two")

        def fail(key, rk, text, **failing):
            problems.append((f"{key}:{rk}" if rk else key, text, failing))

        # ---- (a) (b) explicit, read, known values --------------------------------------------------------------------------
        for path, role, rk, o, unit in objects:
            where = f"{role} {describe(o)} of unit {list(path)} ({type(unit).__qualname__})"
            for name in root_names(o):
                if name not in o.__dict__ or not o.has_set(name):
                    if not (o.has_cached(name) or has_value(ctx, o, name)):
                        ctx.count("units-root-without-value:" + rk)
                        continue
                    if not demanded(path, rk, unit):
                        ctx.count("observed:roll-of-harness-made-pass-class-not-root-evaluated")
                        continue
                    fail("units-root-not-explicit", rk,
                         f"root hook {name} is not an explicit value of the {where} after solve (has_set "
                         f"{o.has_set(name)}, has_cached {o.has_cached(name)}): the solver's result is merely remembered",
                         path=list(path), role=role, name=name)
                    continue
                ctx.count("units-root-explicit:" + rk)
                v = o.__dict__[name]
                if v is not None and not callable(v):
                    try:
                        got = getattr(o, name)
                    except Exception as ex:
                        got = ex
                    if got is not v:
                        fail("units-root-read-not-explicit", rk,
                             f"reading root hook {name} of the {where} does not return its explicit value ({got!r})",
                             path=list(path), role=role, name=name)
                for hook, const in plug_hooks:
                    if const is not None and hook.name == name and hook.owner in type(o).__mro__ and v != const:
                        fail("units-root-value-not-computed", rk,
                             f"plug-in root hook {name} of the {where}: explicit value {v!r}, its only implementation yields "
                             f"{const!r}", path=list(path), role=role, name=name)
                if over_target and name == over_target[1] and over_target[0] in type(o).__mro__ and v != over_target[2]:
                    fail("units-root-value-not-computed", rk,
                         f"root hook {name} of the {where}: explicit value {v!r}, the tryfirst implementation registered "
                         f"before the solve yields {over_target[2]!r}", path=list(path), role=role, name=name)
        # ---- (c) (d) re-evaluation, later registration ---------------------------------------------------------------------
        for path, role, rk, o, unit in objects:
            where = f"{role} {describe(o)} of unit {list(path)} ({type(unit).__qualname__})"
            before = public(o.__dict__)
            try:
                o.reevaluate_cache()
            except Exception as ex:
                if not _from_pyroll(ex):
                    raise
                fail("units-reevaluate-raised", rk, f"reevaluate_cache of the {where} after solve raised {ex!r}",
                     path=list(path), role=role)
                continue
            after = public(o.__dict__)
            if list(before) != list(after) or any(before[k] is not after[k] for k in before):
                changed = [k for k in before if k not in after or before[k] is not after[k]] + [k for k in after if k not in before]
                fail("units-reevaluate-changed-explicit", rk,
                     f"reevaluate_cache changed the explicit values {changed[:4]} of the {where}", path=list(path), role=role)
            names = [n for n in root_names(o) if has_value(ctx, o, n)]
            values, local = {}, []
            try:
                for n in names:
                    try:
                        values[n] = getattr(o, n)
                    except Exception:
                        continue
                    mk = marker_for(values[n])
                    if mk is None:
                        del values[n]
                        continue
                    hook = getattr(type(o), n)
                    hf = hook.add_function(lambda self, _m=mk: _m, tryfirst=True)
                    local.append((hook, hf))
                    registered.append((hook, hf))
                if values:
                    try:
                        o.reevaluate_cache()
                    except Exception as ex:
                        if not _from_pyroll(ex):
                            raise
                        ctx.count("units-reevaluate-with-later-registration-raised:" + type(ex).__name__)
                    for n, v in values.items():
                        try:
                            got = getattr(o, n)
                        except Exception as ex:
                            got = ex
                        if got is v:
                            ctx.count("units-root-survived-later-registration:" + rk)
                            continue
                        if not demanded(path, rk, unit):
                            ctx.count("observed:roll-of-harness-made-pass-class-not-root-evaluated")
                            continue
                        fail("units-root-changed-by-later-registration", rk,
                             f"root hook {n} of the {where}: {v!r} after solve, {got!r} after another implementation was "
                             f"registered and the object re-evaluated (the value was recomputed instead of kept)",
                             path=list(path), role=role, name=n)
            finally:
                for hook, hf in local:
                    hook.remove_function(hf)
                    registered.remove((hook, hf))
                if local:
                    try:
                        o.reevaluate_cache()
                    except Exception as ex:
                        if not _from_pyroll(ex):
                            raise
        # ---- (e) hand-over -------------------------------------------------------------------------------------------------
        rot_out_roots = [h.name for h in root_hooks if h.owner in pc.Rotator.OutProfile.__mro__]

        def handover(src_o, dst_o, rk, changed_ok, absent_ok, text):
            src, dst = public(src_o.__dict__), dst_o.__dict__
            # the receiving unit evaluates the root hooks of ITS in profile itself (velocity of a roll pass' in profile)
            changed_ok = set(changed_ok) | set(root_names(dst_o))
            for k, v in src.items():
                if k not in dst:
                    if k not in absent_ok:
                        fail("units-handover-lost", rk, f"{text}: explicit value {k} did not arrive as an explicit value",
                             name=k)
                elif dst[k] is not v and k not in changed_ok:
                    fail("units-handover-changed", rk, f"{text}: explicit value {k} arrived changed ({v!r} -> {dst[k]!r})",
                         name=k)
                else:
                    ctx.count("units-handover-explicit:" + rk)
            for k in src_o.__cache__:
                if k not in src_o.__dict__ and k in dst and k not in changed_ok and not k.startswith("_"):
                    fail("units-handover-cache-entry", "", f"{text}: the merely remembered value {k} was handed over as an "
                         f"explicit value", name=k)

        def walk(u, path, disk):
            subs = list(u.subunits)
            rk = "disk" if disk else "unit"
            if subs:
                # the root hooks of the parent's in profile are set anew at the end of every iteration: the sub unit holds
                # the value of the iteration before (none after a single iteration)
                own = set(root_names(u.in_profile))
                handover(u.in_profile, subs[0].in_profile, rk + "-first",
                         own | (set(rot_out_roots) if _rotated(subs[0]) else set()), own,
                         f"in profile of unit {list(path)} ({type(u).__qualname__}) -> in profile of its first sub unit")
            for k, (a, b) in enumerate(zip(subs, subs[1:])):
                handover(a.out_profile, b.in_profile, rk, set(rot_out_roots) if _rotated(b) else set(), set(),
                         f"out profile of sub unit {k} ({type(a).__qualname__}) of unit {list(path)} -> in profile of sub unit "
                         f"{k + 1} ({type(b).__qualname__})")
            for k, s in enumerate(subs):
                walk(s, path + (k,), disk or not isinstance(u, pc.PassSequence))

        def _rotated(b):
            if not isinstance(b, pc.BaseRollPass):
                return False
            try:
                return bool(b.rotation)
            except AttributeError:
                return False
        walk(top, (), False)
        # ---- (f) one further root phase: every object is visited -----------------------------------------------------------
        units = [(path, unit) for path, role, rk, o, unit in objects if role == "unit"]
        for path, unit in units:
            seen = []
            orig = HookHost.__dict__["evaluate_and_set_hooks"]

            def spy(self, _orig=orig, _seen=seen):
                _seen.append(self)
                return _orig(self)
            HookHost.evaluate_and_set_hooks = spy
            try:
                try:
                    unit.get_root_hook_results()
                except Exception as ex:
                    if not _from_pyroll(ex):
                        raise
                    ctx.count("units-further-root-phase-raised:" + type(ex).__name__)
                    continue
            finally:
                HookHost.evaluate_and_set_hooks = orig
            mine = [(role, rk, o) for p, role, rk, o, u in objects if u is unit]
            roles = []
            for s in seen:
                r = [role for role, rk, o in mine if o is s]
                roles.append(r[0] if r else "?")
            obs["phases"].append(([k.__qualname__ for k in type(unit).__mro__], roles))
            obs["objects"].append(([k.__qualname__ for k in type(unit).__mro__],
                                   [(role, [k.__qualname__ for k in type(o).__mro__]) for role, rk, o in mine]))
            for role, rk, o in mine:
                n = sum(1 for s in seen if s is o)
                ctx.count(f"units-root-phase-visits:{rk}:{min(n, 3)}")
                if n == 0 and root_names(o):
                    if not demanded(path, rk, unit):
                        ctx.count("observed:roll-of-harness-made-pass-class-not-root-evaluated")
                        continue
                    fail("units-root-phase-skips", rk,
                         f"one call of get_root_hook_results() of unit {list(path)} ({type(unit).__qualname__}) does not "
                         f"evaluate the root hooks {root_names(o)} of its {role} {describe(o)}", path=list(path), role=role)
    finally:
        for hook, hf in registered:
            hook.remove_function(hf)
        for hook in reversed(inserted):
            try:
                root_hooks.remove_last(hook)
            except ValueError:
                pass
        if list(root_hooks) != snapshot or any(a is not b for a, b in zip(root_hooks, snapshot)):
            root_hooks[:] = snapshot
    return problems, obs


# ---------------------------------------------------------------------------------------------------------------------------
# generator
# ---------------------------------------------------------------------------------------------------------------------------
LINES = [
    # (three?, in kind, in size, [groove, ...])
    (False, "round", 30e-3, ["oval", "round"]),
    (False, "round", 30e-3, ["oval"]),
    (False, "round", 30e-3, ["oval", "round", "oval75"]),
    (False, "box", 30e-3, ["box"]),
    (False, "box", 30e-3, ["diamond", "square"]),
    (False, "box", 30e-3, ["oval"]),
    (False, "round", 30e-3, ["swedish"]),
    (True, "round", 55e-3, ["oval", "round"]),
    (True, "round", 55e-3, ["oval"]),
    (True, "round", 55e-3, ["oval", "round"]),
]


def gen_spec(rng):
    three, ik, size, grooves = rng.choice(LINES)
    kinds = THREE_KINDS if three else TWO_KINDS
    units = []
    n_pass = 0
    for g in grooves:
        if units and rng.random() < 0.8:
            r = rng.random()
            if r < 0.45:
                units.append({"t": "transport", "duration": round(rng.uniform(0.5, 2.0), 3), "disks": rng.choice([0, 0, 2])})
            elif r < 0.6:
                units.append({"t": "transport", "length": round(rng.uniform(0.5, 3.0), 3), "disks": rng.choice([0, 0, 3])})
            elif r < 0.85:
                units.append({"t": "pipe", "length": round(rng.uniform(0.5, 3.0), 3), "disks": rng.choice([0, 2])})
            else:
                units.append({"t": "rotator", "rotation": rng.choice([90, 90, 45, 0])})
        p = {"t": "pass", "cls": rng.choice(kinds), "groove": "oval" if g == "oval75" else g,
             "j": [round(rng.uniform(0.9, 1.08), 4), round(rng.uniform(0.95, 1.08), 4)],
             "gap": round(rng.uniform(0.7, 1.4), 3), "disks": rng.choice([0, 0, 0, 2, 3])}
        if g == "oval75":
            p["scale"] = 0.75
        if rng.random() < 0.4:
            p["rotation"] = False
        if rng.random() < 0.35:
            roles = rng.sample(["unit", "roll", "out_profile", "in_profile"], rng.randrange(1, 4))
            p["probes"] = [[r, round(rng.uniform(1.0, 9.0), 3)] for r in roles]
        units.append(p)
        n_pass += 1
    if rng.random() < 0.3:
        units.append({"t": rng.choice(["transport", "pipe"]), "duration": round(rng.uniform(0.5, 2.0), 3),
                      "disks": rng.choice([0, 2])})
    # nesting: a contiguous slice becomes a sequence of its own
    if len(units) >= 2 and rng.random() < 0.35:
        a = rng.randrange(0, len(units) - 1)
        b = rng.randrange(a + 1, len(units) + 1)
        units = units[:a] + [{"t": "seq", "units": units[a:b]}] + units[b:]
    alone = len(units) == 1 and units[0]["t"] == "pass" and rng.random() < 0.5
    top = units[0] if alone else {"t": "seq", "units": units}
    spec = {"in": {"kind": ik, "size": round(size * rng.uniform(0.95, 1.03), 6)}, "top": top, "plug": []}
    # paths of the passes
    paths = []

    def find(u, path):
        if u["t"] == "pass":
            paths.append((path, u))
        for k, s in enumerate(u.get("units", [])):
            find(s, path + [k])
    find(top, [])
    for path, u in paths:
        for role, _ in u.get("probes", []):
            spec["plug"].append({"what": "probe", "path": path, "role": role, "how": rng.choice(["before", "after", "append", "add"]),
                                 "pos": rng.randrange(0, 64)})
    if rng.random() < 0.45:
        for _ in range(rng.randrange(1, 3)):
            fam = rng.choice(["roll", "roll", "unit", "profile"])
            owners = [o for o in PLUG_CORE[fam]
                      if (("Three" not in o) or three) and (("Two" not in o) or not three)]
            owner = rng.choice(owners)
            if owner == "PassSequence" and top["t"] != "seq":
                continue
            spec["plug"].append({"what": "core", "owner": owner, "name": rng.choice(PLUG_CORE[fam][owner]),
                                 "how": rng.choice(["before", "after", "append", "add"]), "pos": rng.randrange(0, 64)})
    if paths and rng.random() < 0.3:
        path, u = rng.choice(paths)
        role = rng.choice(["roll", "unit", "out_profile"])
        spec["override"] = {"path": path, "role": role, "name": rng.choice(OVERRIDABLE[role]),
                            "value": round(rng.uniform(100.0, 900.0), 2)}
    return spec


def spec_counts(ctx, spec):
    def walk(u):
        ctx.count("units-unit:" + u["t"] + (":" + u["cls"] if u["t"] == "pass" else ""))
        if u.get("disks"):
            ctx.count("units-with-disks:" + u["t"])
        if u.get("probes"):
            for r, _ in u["probes"]:
                ctx.count("units-probe-root:" + r)
        for s in u.get("units", []):
            walk(s)
    walk(spec["top"])
    for p in spec.get("plug", []):
        ctx.count("units-plug:" + p["how"] + ":" + (p["owner"] if p["what"] == "core" else "probe-" + p["role"]))
    if spec.get("override"):
        ctx.count("units-known-computation:" + spec["override"]["name"])


# ---------------------------------------------------------------------------------------------------------------------------
# shrinking, reporting, stream
# ---------------------------------------------------------------------------------------------------------------------------
class _Quiet:
    """a ctx stand-in for re-runs while shrinking (no counting)"""
    def count(self, *a, **k):
        pass


def _keys(spec):
    try:
        probs, _ = run_units_case(_Quiet(), spec)
    except Skip:
        return set()
    return {k for k, _, _ in probs}


def shrink(spec, key):
    """greedy: drop plug-ins, the known computation, units, probes, disks while the same key is still reported"""
    cur = json.loads(json.dumps(spec))

    def candidates(s):
        if s.get("plug"):
            for k in range(len(s["plug"])):
                if s["plug"][k]["what"] == "core":
                    c = json.loads(json.dumps(s))
                    del c["plug"][k]
                    yield c
        if s.get("override"):
            c = json.loads(json.dumps(s))
            del c["override"]
            yield c
        top = s["top"]
        if top["t"] == "seq" and len(top["units"]) > 1 and not s.get("plug") and not s.get("override"):
            for k in range(len(top["units"])):
                c = json.loads(json.dumps(s))
                del c["top"]["units"][k]
                yield c

        def strip(u):
            for key_ in ("probes", "disks"):
                if u.get(key_):
                    return key_
            return None
        if top["t"] == "seq":
            for k, u in enumerate(top["units"]):
                w = strip(u)
                if w and not (w == "probes" and s.get("plug")):
                    c = json.loads(json.dumps(s))
                    del c["top"]["units"][k][w]
                    yield c
    for _ in range(12):
        for c in candidates(cur):
            if key in _keys(c):
                cur = c
                break
        else:
            break
    return cur


REPORTED = {}


def report(ctx, spec, problems, shrink_it=True):
    seen = set()
    for key, text, failing in problems:
        if key in seen:
            continue
        seen.add(key)
        REPORTED[key] = REPORTED.get(key, 0) + 1
        if REPORTED[key] > 2:
            ctx.count("further-violations:" + key)
            continue
        small = spec
        if shrink_it:
            small = shrink(spec, key)
            if small is not spec:
                try:
                    probs2, _ = run_units_case(_Quiet(), small)
                except Skip:
                    probs2 = []
                hit = [(k, t, f) for k, t, f in probs2 if k == key]
                if hit:
                    _, text, failing = hit[0]
                else:
                    small = spec
        ctx.violation(key, f"{key}: {text}", {
            "units_spec": small, "failing": failing,
            "how": "driver/props/c02_units.py run_units_case(spec): build_unit(spec['top']) (pass classes of kind two / three = "
                   "the core classes, *-sub = type(name, (core class,), {}), sym-* = subclass of SymmetricRollPass taking geometry, "
                   "nested classes and hook implementations of the donor class, base-two = the same below BaseRollPass with a "
                   "constructor of its own; probes = new hooks with a constant implementation), plug-in root hooks put into "
                   "pyroll.core.root_hooks, solve(build_in_profile(spec['in'])), then the clauses (a)-(f) of the module doc string"})


def classes_of_interest():
    import pyroll.core as pc
    out = []
    for name in ("Unit", "PassSequence", "Transport", "CoolingPipe", "Rotator", "BaseRollPass", "SymmetricRollPass",
                 "TwoRollPass", "ThreeRollPass", "DeformationUnit", "DiskElementUnit", "Roll", "Profile"):
        cls = getattr(pc, name)
        out.append(cls)
        for n in NESTED:
            k = cls.__dict__.get(n)
            if isinstance(k, type):
                out.append(k)
                for n2 in NESTED:
                    k2 = k.__dict__.get(n2)
                    if isinstance(k2, type):
                        out.append(k2)
    return out


def run_units(ctx, n):
    """the stream + K; returns nothing (reports through ctx)"""
    from pyroll.core import root_hooks
    REPORTED.clear()
    rng = ctx.rng
    phases, objs = {}, {}
    pristine_roots = {}
    for cls in classes_of_interest():
        pristine_roots[cls.__qualname__] = [h.name for h in root_hooks if issubclass(cls, h.owner)]
    solved = 0
    for spec in CORPUS + [gen_spec(rng) for _ in range(n)]:
        canon = json.dumps(spec, sort_keys=True)
        try:
            problems, obs = run_units_case(ctx, spec)
        except Skip as ex:
            ctx.count("units-skipped:" + str(ex))
            continue
        except Exception as ex:
            # the implementation raised where the harness examines a solved unit (never on the code as it is): broken tie
            if not _from_pyroll(ex):
                raise
            ctx.count("harness-could-not-observe:" + type(ex).__name__)
            ctx.disagreement(f"the harness could not examine this solved unit tree: the implementation raised {ex!r}",
                             {"units_spec": spec})
            continue
        solved += 1
        ctx.case(["units-stream", canon], nontrivial=True)
        ctx.count("units-sequences-solved")
        spec_counts(ctx, spec)
        if len([s for s in ctx.samples if isinstance(s, dict) and "units_spec" in s]) < 1 and spec.get("plug"):
            ctx.sample({"units_spec": spec})
        if problems:
            report(ctx, spec, problems)
        for chain, roles in obs["phases"]:
            phases.setdefault(tuple(chain), set()).add(tuple(roles))
        for chain, os_ in obs["objects"]:
            objs.setdefault(tuple(chain), set()).add(tuple((r, tuple(c)) for r, c in os_))
    ctx.notes["units_stream"] = {"solved": solved, "unit_classes_seen": len(phases)}
    # how often the roll of a two-roll pass is visited per call (see `exactly_once_iff_no_repeated_roll_statement`)
    two = [roles for chain, rs in phases.items() if chain[0] == "TwoRollPass" for roles in rs]
    if two:
        ctx.notes["roll_of_two_roll_pass_visited"] = sorted({r.count("roll") for r in two})
        if any(r.count("roll") == 2 for r in two):
            ctx.count("observed:two-roll-pass-evaluates-its-roll-twice-per-iteration")
    # ---- K: the Lean model on the tables read from the source ---------------------------------------------------------------
    if not getattr(ctx, "model_available", True):
        return
    lines, expect = [], []
    known = None

    def nearest(chain):
        return next((q for q in chain if q in known), None)
    out0 = ctx.lean_model(MODEL, ["roots " + q for q in pristine_roots])
    known = {q for q, o in zip(pristine_roots, out0) if o != "unknown-class"}
    for q, o in zip(pristine_roots, out0):
        want = ",".join(pristine_roots[q]) or "-"
        if o == "unknown-class":
            ctx.disagreement(f"class {q} of the imported package is not in the tables read from the source", {"class": q})
        elif o != want:
            ctx.disagreement(f"root hooks of class {q}: model {o}, implementation {want}",
                             {"class": q, "model": o, "impl": want})
        else:
            ctx.validated()
    for chain, rs in phases.items():
        q = nearest(chain)
        if q is None:
            continue
        for roles in rs:
            lines.append("phase " + q)
            expect.append(("phase", chain, ",".join(roles) or "-"))
    for chain, oss in objs.items():
        q = nearest(chain)
        if q is None or q != chain[0]:
            continue                       # throw-away classes bring nested classes of their own
        for os_ in oss:
            lines.append("objects " + q)
            expect.append(("objects", chain, ",".join(f"{'self' if r == 'unit' else r}={c[0]}" for r, c in os_)))
    if lines:
        out = ctx.lean_model(MODEL, lines)
        for (what, chain, want), got in zip(expect, out):
            harness_roll = what == "phase" and "BaseRollPass" in chain and "SymmetricRollPass" not in chain
            if what == "phase":
                want = want.replace("unit", "self")
            if got == want:
                ctx.validated()
            else:
                ctx.disagreement(f"{what} of a unit of class {chain[0]} (nearest class of the tables: {nearest(chain)}): model "
                                 f"{got}, implementation {want}", {"class_chain": list(chain), "model": got, "impl": want,
                                                                   "harness_made_roll": harness_roll})
        if len(out) != len(lines):
            ctx.disagreement("model output length mismatch (c02units)", {"expected": len(lines), "got": len(out)})


def replay_units(ctx, r):
    spec = r["units_spec"]
    try:
        problems, _ = run_units_case(ctx, spec)
    except Skip as ex:
        ctx.count("units-skipped:" + str(ex))
        return
    REPORTED.clear()
    report(ctx, spec, problems, shrink_it=False)


# past failures first: the sequences of the seeded change C02-12 class (a three-roll line, every kind of pass class) and the
# smallest cases of every unit kind
CORPUS = [
    {"in": {"kind": "round", "size": 0.055},
     "top": {"t": "seq", "units": [{"t": "pass", "cls": "three", "groove": "oval", "disks": 0},
                                   {"t": "transport", "duration": 1.0, "disks": 0},
                                   {"t": "pass", "cls": "three", "groove": "round", "disks": 0}]}, "plug": []},
    {"in": {"kind": "round", "size": 0.055},
     "top": {"t": "seq", "units": [{"t": "pass", "cls": "three-sub", "groove": "oval", "disks": 2},
                                   {"t": "pipe", "length": 2.0, "disks": 2},
                                   {"t": "pass", "cls": "sym-three", "groove": "round", "disks": 0, "rotation": False,
                                    "probes": [["roll", 3.5], ["unit", 4.5]]}]},
     "plug": [{"what": "probe", "path": [2], "role": "roll", "how": "before", "pos": 1},
              {"what": "probe", "path": [2], "role": "unit", "how": "append", "pos": 0},
              {"what": "core", "owner": "ThreeRollPass.Roll", "name": "contact_length", "how": "after", "pos": 1}]},
    {"in": {"kind": "round", "size": 0.03},
     "top": {"t": "seq", "units": [{"t": "pass", "cls": "two", "groove": "oval", "disks": 3},
                                   {"t": "rotator", "rotation": 90},
                                   {"t": "seq", "units": [{"t": "pass", "cls": "sym-two", "groove": "round", "disks": 0,
                                                           "rotation": False},
                                                          {"t": "transport", "length": 1.5, "disks": 2}]}]},
     "plug": [{"what": "core", "owner": "BaseRollPass.Roll", "name": "contact_area", "how": "add", "pos": 0},
              {"what": "core", "owner": "BaseRollPass.OutProfile", "name": "width", "how": "before", "pos": 4}],
     "override": {"path": [0], "role": "roll", "name": "roll_torque", "value": 432.1}},
    {"in": {"kind": "round", "size": 0.03},
     "top": {"t": "seq", "units": [{"t": "pass", "cls": "two-sub", "groove": "oval", "disks": 0,
                                    "probes": [["roll", 2.5], ["out_profile", 6.5], ["in_profile", 7.5]]},
                                   {"t": "transport", "duration": 1.0, "disks": 0},
                                   {"t": "pass", "cls": "base-two", "groove": "round", "disks": 2}]},
     "plug": [{"what": "probe", "path": [0], "role": "roll", "how": "after", "pos": 0},
              {"what": "probe", "path": [0], "role": "out_profile", "how": "before", "pos": 7},
              {"what": "probe", "path": [0], "role": "in_profile", "how": "add", "pos": 0}]},
    {"in": {"kind": "round", "size": 0.055}, "top": {"t": "pass", "cls": "three", "groove": "oval", "disks": 2}, "plug": []},
]
